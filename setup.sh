#!/bin/sh
# Build the engine from files on disk only; warm the -tags=verif export data cache.
set -e
export GOFLAGS=-mod=mod GOPROXY=off GOSUMDB=off GOTOOLCHAIN=local
cd /verif/engine && go build -o /verif/bin/vcheck .
cd /repo && go list -export -tags=verif ./... >/dev/null 2>&1 || true
