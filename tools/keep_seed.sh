#!/bin/bash
# tools/keep_seed.sh <name> <worktree> <detected-by text>
set -e
N="$1"; WT="$2"; DET="$3"
D=/verif/seeded/$N; mkdir -p $D
cp $WT/_out/patch.diff $WT/_out/demo_test.go $D/
python3 - "$WT/_out/meta.json" "$D/meta.json" "$DET" <<'PY'
import json,sys
m=json.load(open(sys.argv[1]))
m['confirmed_by_me']='tools/try_seed.sh: builds, existing suite passes (demo excluded), demo fails with the change and passes without it'
m['detected_by']=sys.argv[3]
json.dump(m,open(sys.argv[2],'w'),indent=1)
PY
echo kept $D
