#!/bin/bash
# tools/try_seed.sh <prop> <worktree> [more props to run...]
# 1. confirms the seeded change in its scratch worktree: builds, suite passes, demo fails with / passes without the change
# 2. applies patch.diff to /repo, runs the property's quick check(s), restores /repo
set -u
export GOFLAGS=-mod=mod GOPROXY=off GOSUMDB=off GOTOOLCHAIN=local
P="$1"; WT="$2"; shift 2; PROPS="$P $*"
OUT="$WT/_out"
[ -f "$OUT/patch.diff" ] || { echo "no patch.diff"; exit 2; }
DEMO_DIR=$(python3 -c "import json;print(json.load(open('$OUT/meta.json')).get('demo_pkg_dir','.'))" 2>/dev/null || echo .)
echo "== confirm in worktree $WT (demo dir: $DEMO_DIR)"
cd "$WT" || exit 2
git checkout -q -- . 2>/dev/null
git apply "$OUT/patch.diff" || { echo "patch does not apply in worktree"; exit 2; }
mkdir -p "$WT/$DEMO_DIR"; cp "$OUT/demo_test.go" "$WT/$DEMO_DIR/zz_demo_test.go"
go build ./... && echo "build: ok" || echo "build: FAIL"
SUITE=$(go test -vet=off -count=1 -skip TestSeededDemo ./... 2>&1 | grep -v "no test files" | grep -vc "^ok")
echo "suite (without demo): non-ok lines = $SUITE"
(cd "$WT/$DEMO_DIR" && go test -vet=off -count=1 -run '^TestSeededDemo$' . >/tmp/demo_with.txt 2>&1); W=$?
git apply -R "$OUT/patch.diff"
(cd "$WT/$DEMO_DIR" && go test -vet=off -count=1 -run '^TestSeededDemo$' . >/tmp/demo_without.txt 2>&1); WO=$?
echo "demo with change: exit $W (want non-zero); without: exit $WO (want 0)"
rm -f "$WT/$DEMO_DIR/zz_demo_test.go"
echo "== run checks on /repo with the patch applied"
if [ -n "$(git -C /repo status --porcelain --untracked-files=no)" ]; then echo "REFUSING: /repo has uncommitted changes (commit contract files first)"; exit 3; fi
cd /repo && git apply "$OUT/patch.diff" || { echo "patch does not apply to /repo"; exit 2; }
for q in $PROPS; do
  # the evidence file is rewritten by every run: keep the one from the quiet run on the unchanged tree
  [ -f /verif/evidence/$q.json ] && cp /verif/evidence/$q.json /tmp/try_seed_ev_$q.json
  (cd /verif && ./run.sh $q quick 2>&1 | cut -c1-300 | tail -4)
  [ -f /tmp/try_seed_ev_$q.json ] && mv /tmp/try_seed_ev_$q.json /verif/evidence/$q.json
done
cd /repo && git checkout -q -- . && git status --short | head -3
