#!/usr/bin/env python3
# Pre-commit guard: every claimed property has an evidence file that validates against the schema,
# was written by a quiet run (violations == 0) and, for level proof, has discharged == obligations.
# Usage: python3-vt tools/check_evidence.py   (exit 1 and one line per problem otherwise)
import json, sys, os
import jsonschema
root = os.path.dirname(os.path.dirname(os.path.abspath(__file__)))
sch = json.load(open('/root/.vp/EVIDENCE.schema.json'))
man = json.load(open(os.path.join(root, 'MANIFEST.json')))
bad = 0
for c in man['checks']:
    pid = c.get('property_id') or c.get('id')
    p = os.path.join(root, 'evidence', pid + '.json')
    try:
        e = json.load(open(p))
        jsonschema.validate(e, sch)
        cov = e['coverage']
        if e['property_id'] != pid:
            raise ValueError('property_id %s' % e['property_id'])
        if e.get('violations', 0) != 0:
            raise ValueError('written by a run that reported %d violation(s)' % e['violations'])
        if e['level'] == 'proof' and cov['discharged'] != cov['obligations']:
            raise ValueError('discharged %d != obligations %d' % (cov['discharged'], cov['obligations']))
    except Exception as ex:
        bad += 1
        print('BAD-EVIDENCE %s: %s' % (pid, str(ex).splitlines()[0]))
print('evidence files checked: %d, bad: %d' % (len(man['checks']), bad))
sys.exit(1 if bad else 0)
