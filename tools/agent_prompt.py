#!/usr/bin/env python3
"""tools/agent_prompt.py <prop-id> <worktree> [extra hint]: renders the seeding prompt for a sub-agent (property text only)."""
import json, sys
pid, wt = sys.argv[1], sys.argv[2]
extra = sys.argv[3] if len(sys.argv) > 3 else ''
p = [json.loads(l) for l in open('/verif/properties.jsonl') if json.loads(l)['id'] == pid][0]
t = open('/verif/tools/agent_prompt.txt').read()
out = t.replace('{WT}', wt).replace('{ID}', pid).replace('{TITLE}', p['title']).replace('{STATEMENT}', p['statement']).replace('{{', '{').replace('}}', '}')
if extra: out += '\n' + extra
print(out)
