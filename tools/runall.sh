#!/bin/bash
# runs every claimed property's quick check, one line per property
cd /verif
for f in props/C*.json; do p=$(basename $f .json); ./run.sh $p ${1:-quick} 2>&1 | grep -E "^(VIOLATION|ERROR|property=)" | cut -c1-220; done
