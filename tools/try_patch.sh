#!/bin/bash
# tools/try_patch.sh <patch.diff> <prop> [prop...]
# Must-fail harness: applies a source patch to /repo (which must be clean), checks that it still builds
# and that the root package's own tests pass, runs the quick checks of the given properties, and restores /repo.
# Prints one summary line per property:  MUTANT <patch> <prop> detected|MISSED
set -u
export GOFLAGS=-mod=mod GOPROXY=off GOSUMDB=off GOTOOLCHAIN=local
PATCH=$(realpath "$1"); shift
if [ -n "$(git -C /repo status --porcelain --untracked-files=no)" ]; then echo "REFUSING: /repo has uncommitted changes"; exit 3; fi
cd /repo && git apply "$PATCH" || { echo "patch does not apply: $PATCH"; git reset -q --hard HEAD; exit 2; }
git reset -q
trap 'cd /repo && git checkout -q -- . ' EXIT
go build ./... || { echo "MUTANT $PATCH does not build"; exit 2; }
PKGS=$(git diff --name-only | xargs -n1 dirname | sort -u | sed 's#^#./#')
T=$(go test -vet=off -count=1 $PKGS 2>&1 | grep -v "no test files" | grep -vc "^ok")
echo "suite of changed packages ($PKGS): non-ok lines = $T"
for q in "$@"; do
  # the evidence file is rewritten by every run: keep the one from the quiet run on the unchanged tree
  [ -f /verif/evidence/$q.json ] && cp /verif/evidence/$q.json /tmp/try_patch_ev_$q.json
  OUT=$(cd /verif && ./run.sh "$q" quick 2>&1); RC=$?
  echo "$OUT" | grep -E "^VIOLATION" | cut -c1-260 | head -4
  if [ $RC -ne 0 ] && echo "$OUT" | grep -q "^VIOLATION property=$q "; then echo "MUTANT $(basename $(dirname $PATCH))/$(basename $PATCH) $q detected"; else echo "MUTANT $(basename $(dirname $PATCH))/$(basename $PATCH) $q MISSED"; fi
  [ -f /tmp/try_patch_ev_$q.json ] && mv /tmp/try_patch_ev_$q.json /verif/evidence/$q.json
done
