#!/bin/bash
# tools/run_corpus.sh: the must-fail corpus. Applies every seeded/<id>/patch.diff to the repository (VERIF_REPO, default /repo,
# which must be clean), runs the quick check of the property the seed is filed under (seeded/<id>/meta.json "property", plus
# "also" if present) and restores the repository. One line per seed: CORPUS <id> <prop> detected|MISSED|noapply
cd "$(dirname "$0")/.."
R=${VERIF_REPO:-/repo}
export VERIF_ROOT=${VERIF_ROOT:-$PWD}
export GOFLAGS=-mod=mod GOPROXY=off GOSUMDB=off GOTOOLCHAIN=local
for d in seeded/*/; do
  id=$(basename $d)
  [ -f $d/patch.diff ] || continue
  props=$(python3 -c "import json;m=json.load(open('$d/meta.json'));print(' '.join([m.get('property','')]+m.get('also',[])))" 2>/dev/null)
  [ -n "$props" ] || props=$(echo $id | cut -d- -f1)
  if ! git -C $R apply --check $PWD/$d/patch.diff 2>/dev/null; then echo "CORPUS $id - noapply"; continue; fi
  git -C $R apply $PWD/$d/patch.diff
  for q in $props; do
    cp evidence/$q.json /tmp/corpus_ev_$q.json 2>/dev/null
    OUT=$(./run.sh $q quick 2>&1); RC=$?
    if [ $RC -ne 0 ] && echo "$OUT" | grep -aq "^VIOLATION property=$q "; then echo "CORPUS $id $q detected"; else echo "CORPUS $id $q MISSED"; fi
    [ -f /tmp/corpus_ev_$q.json ] && mv /tmp/corpus_ev_$q.json evidence/$q.json
  done
  git -C $R checkout -q -- .
done
