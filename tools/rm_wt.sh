#!/bin/bash
# tools/rm_wt.sh <name>: remove the scratch worktree and its build output
git -C /repo worktree remove --force /tmp/wt-$1 2>/dev/null; rm -rf /tmp/wt-$1; git -C /repo worktree prune
