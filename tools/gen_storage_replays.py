#!/usr/bin/env python3
"""Writes the replay templates of the storage hooks (C20, C22): replay/<backend>.Hook.<event>.go.tmpl.

One oracle body per hook event, four set-ups (badger, pebble, bolt on a temporary directory, redis on an in-process
miniredis).  The oracle drives the real hook event with a session / message whose every persisted field is non-zero and
reads the record back through the back end's own Stored* method: what the restart path (server.readStore) and the
C22 comparison read.  The templates are generated so that the four back ends are replayed against one body; they are
committed and used as they are (nothing is generated at check time).
"""
import os

ROOT = os.path.join(os.path.dirname(os.path.abspath(__file__)), "..", "replay")

SETUP = {
    "badger": ('"os"', '''	dir, _ := os.MkdirTemp("", "verif-replay")
	defer os.RemoveAll(dir)
	h := new(Hook)
	h.SetOpts(slog.New(slog.NewTextHandler(io.Discard, nil)), nil)
	if err := h.Init(&Options{Path: dir}); err != nil {
		t.Skip("store not opened: " + err.Error())
	}
	defer h.Stop()
'''),
    "pebble": ('"os"', '''	dir, _ := os.MkdirTemp("", "verif-replay")
	defer os.RemoveAll(dir)
	h := new(Hook)
	h.SetOpts(slog.New(slog.NewTextHandler(io.Discard, nil)), nil)
	if err := h.Init(&Options{Path: dir}); err != nil {
		t.Skip("store not opened: " + err.Error())
	}
	defer h.Stop()
'''),
    "bolt": ('"os"\n\t"path/filepath"', '''	dir, _ := os.MkdirTemp("", "verif-replay")
	defer os.RemoveAll(dir)
	h := new(Hook)
	h.SetOpts(slog.New(slog.NewTextHandler(io.Discard, nil)), nil)
	if err := h.Init(&Options{Path: filepath.Join(dir, "bolt.db")}); err != nil {
		t.Skip("store not opened: " + err.Error())
	}
	defer h.Stop()
'''),
    "redis": ('miniredis "github.com/alicebob/miniredis/v2"\n\tgoredis "github.com/go-redis/redis/v8"', '''	mr := miniredis.RunT(t)
	h := new(Hook)
	h.SetOpts(slog.New(slog.NewTextHandler(io.Discard, nil)), nil)
	if err := h.Init(&Options{Options: &goredis.Options{Addr: mr.Addr()}}); err != nil {
		t.Skip("store not opened: " + err.Error())
	}
	defer h.Stop()
'''),
}

HEAD = '''package PKG

import (
	"io"
	"log/slog"
	IMPORTS
	"testing"

	mqtt "github.com/mochi-mqtt/server/v2"
	"github.com/mochi-mqtt/server/v2/packets"
)

var _ = packets.Packet{}

func verifClient() *mqtt.Client {
	cl := &mqtt.Client{ID: "a:b/c_d", Net: mqtt.ClientConnection{Remote: "10.0.0.1:1883", Listener: "tcp1"}}
	cl.Properties.Username = []byte("user")
	cl.Properties.Clean = false
	cl.Properties.ProtocolVersion = 5
	cl.Properties.Props = packets.Properties{SessionExpiryInterval: 120, SessionExpiryIntervalFlag: true, RequestProblemInfo: 0, RequestProblemInfoFlag: true,
		RequestResponseInfo: 1, ReceiveMaximum: 33, TopicAliasMaximum: 44, MaximumPacketSize: 5555}
	cl.Properties.Will = mqtt.Will{TopicName: "will/topic", Payload: []byte("gone"), Qos: 1, Retain: true, Flag: 1, WillDelayInterval: 9}
	return cl
}

func verifPublish() packets.Packet {
	return packets.Packet{FixedHeader: packets.FixedHeader{Type: packets.Publish, Qos: 2, Retain: true, Dup: true}, PacketID: 777, TopicName: "x:y/z", Payload: []byte("payload"),
		Origin: "origin-client", Created: 1234567, Expiry: 1234567 + 60, ProtocolVersion: 5,
		Properties: packets.Properties{PayloadFormat: 1, PayloadFormatFlag: true, MessageExpiryInterval: 60, ContentType: "text/plain", ResponseTopic: "reply/to", CorrelationData: []byte("corr"),
			User: []packets.UserProperty{{Key: "k", Val: "v"}}}}
}

'''

BODY = {}

BODY["updateClient"] = '''// Witness scenario for C20 / C22 (a restarted broker has the same sessions with their expiry settings; the back ends return
// the same clients): a version-5 session whose every persisted setting is non-zero is written by the session-established
// event and read back the way server.readStore reads it.
// failed obligation: {{OBLIGATION}}
func TestVerifReplay(t *testing.T) {
SETUP
	cl := verifClient()
	h.updateClient(cl)
	got, err := h.StoredClients()
	if err != nil || len(got) != 1 {
		t.Fatalf("VERIF-REPLAY-FAIL {{OBLIGATION}}: one session written, %d read back (err %v)", len(got), err)
	}
	r, p := got[0], cl.Properties.Props
	if r.ID != cl.ID || r.Remote != cl.Net.Remote || r.Listener != cl.Net.Listener || string(r.Username) != "user" || r.Clean != cl.Properties.Clean || r.ProtocolVersion != 5 {
		t.Fatalf("VERIF-REPLAY-FAIL {{OBLIGATION}}: stored session identity %+v differs from the session's", r)
	}
	if r.Properties.SessionExpiryInterval != p.SessionExpiryInterval || r.Properties.ReceiveMaximum != p.ReceiveMaximum || r.Properties.TopicAliasMaximum != p.TopicAliasMaximum ||
		r.Properties.MaximumPacketSize != p.MaximumPacketSize || r.Properties.RequestProblemInfo != p.RequestProblemInfo || r.Properties.RequestResponseInfo != p.RequestResponseInfo {
		t.Fatalf("VERIF-REPLAY-FAIL {{OBLIGATION}}: stored connect properties %+v differ from the session's %+v", r.Properties, p)
	}
	if r.Properties.SessionExpiryIntervalFlag != p.SessionExpiryIntervalFlag || r.Properties.RequestProblemInfoFlag != p.RequestProblemInfoFlag {
		t.Fatalf("VERIF-REPLAY-FAIL {{OBLIGATION}}: the session has SessionExpiryIntervalFlag=%v RequestProblemInfoFlag=%v, the stored record has %v / %v: after a restart the session's expiry interval of %d s is not honoured (clearExpiredClients falls back to the server maximum) and RequestProblemInfo=0 is forgotten",
			p.SessionExpiryIntervalFlag, p.RequestProblemInfoFlag, r.Properties.SessionExpiryIntervalFlag, r.Properties.RequestProblemInfoFlag, p.SessionExpiryInterval)
	}
	w := cl.Properties.Will
	if r.Will.TopicName != w.TopicName || string(r.Will.Payload) != "gone" || r.Will.Qos != w.Qos || r.Will.Retain != w.Retain || r.Will.Flag != w.Flag || r.Will.WillDelayInterval != w.WillDelayInterval {
		t.Fatalf("VERIF-REPLAY-FAIL {{OBLIGATION}}: stored will %+v differs from the session's", r.Will)
	}
}
'''

BODY["OnDisconnect"] = '''// Witness scenario for C20 / C22 (sessions are restored with their expiry settings; the back ends return the same clients):
// a session is established, its DISCONNECT packet changes the session expiry interval (server.processDisconnect writes
// it into the client's properties), and the disconnect event follows without expiring the session.  The stored record
// must carry the new interval; an expiring disconnect must delete the record, a taken-over session's must not.
// failed obligation: {{OBLIGATION}}
func TestVerifReplay(t *testing.T) {
SETUP
	cl := verifClient()
	h.OnSessionEstablished(cl, packets.Packet{})
	cl.Properties.Props.SessionExpiryInterval = 7
	h.OnDisconnect(cl, nil, false)
	got, err := h.StoredClients()
	if err != nil || len(got) != 1 {
		t.Fatalf("VERIF-REPLAY-FAIL {{OBLIGATION}}: a session that does not expire on disconnect: %d records read back (err %v)", len(got), err)
	}
	if got[0].Properties.SessionExpiryInterval != 7 {
		t.Fatalf("VERIF-REPLAY-FAIL {{OBLIGATION}}: the session's expiry interval was changed to 7 s by its DISCONNECT; the record read back after the disconnect event has %d s", got[0].Properties.SessionExpiryInterval)
	}
	h.OnDisconnect(cl, nil, true)
	if got, _ = h.StoredClients(); len(got) != 0 {
		t.Fatalf("VERIF-REPLAY-FAIL {{OBLIGATION}}: an expiring disconnect left %d client records", len(got))
	}
	// a connection whose session was taken over: its disconnect event writes the record like any other (every back end
	// does) and must not delete it, whatever the expire argument says
	old := verifClient()
	h.OnSessionEstablished(old, packets.Packet{})
	old.Properties.Props.SessionExpiryInterval = 9
	old.Stop(packets.ErrSessionTakenOver)
	h.OnDisconnect(old, nil, true)
	if got, _ = h.StoredClients(); len(got) != 1 {
		t.Fatalf("VERIF-REPLAY-FAIL {{OBLIGATION}}: the disconnect of a taken-over connection left %d client records (want 1: the session lives on)", len(got))
	}
	if got[0].Properties.SessionExpiryInterval != 9 {
		t.Fatalf("VERIF-REPLAY-FAIL {{OBLIGATION}}: the disconnect event of a taken-over connection did not write the client record: expiry interval %d s read back, 9 s in the session (the other back ends write it)", got[0].Properties.SessionExpiryInterval)
	}
}
'''

BODY["OnSubscribed"] = '''// Witness scenario for C20 / C22 (subscriptions are restored with their options): two filters with every option set.
// failed obligation: {{OBLIGATION}}
func TestVerifReplay(t *testing.T) {
SETUP
	cl := verifClient()
	pk := packets.Packet{Filters: packets.Subscriptions{
		{Filter: "a/+/c", Qos: 1, Identifier: 5, NoLocal: true, RetainHandling: 2, RetainAsPublished: true},
		{Filter: "$share/g/x:y", Qos: 2, Identifier: 6},
	}}
	h.OnSubscribed(cl, pk, []byte{1, 2})
	got, err := h.StoredSubscriptions()
	if err != nil || len(got) != 2 {
		t.Fatalf("VERIF-REPLAY-FAIL {{OBLIGATION}}: two subscriptions written, %d read back (err %v)", len(got), err)
	}
	for _, r := range got {
		var want packets.Subscription
		var code byte
		for i, f := range pk.Filters {
			if f.Filter == r.Filter {
				want, code = f, byte(i+1)
			}
		}
		if r.Client != cl.ID || want.Filter == "" || r.Qos != code || r.Identifier != want.Identifier || r.NoLocal != want.NoLocal || r.RetainHandling != want.RetainHandling || r.RetainAsPublished != want.RetainAsPublished {
			t.Fatalf("VERIF-REPLAY-FAIL {{OBLIGATION}}: stored subscription %+v differs from the granted subscription %+v (code %d) of client %q", r, want, code, cl.ID)
		}
	}
}
'''

MSGCHECK = '''	if r.TopicName != pk.TopicName || string(r.Payload) != "payload" || r.FixedHeader.Type != pk.FixedHeader.Type || r.FixedHeader.Qos != pk.FixedHeader.Qos || r.FixedHeader.Retain != pk.FixedHeader.Retain || r.FixedHeader.Dup != pk.FixedHeader.Dup {
		t.Fatalf("VERIF-REPLAY-FAIL {{OBLIGATION}}: stored message %+v differs from the published header, topic or payload", r)
	}
	if r.Origin != pk.Origin || r.Created != pk.Created || r.Client != cl.ID {
		t.Fatalf("VERIF-REPLAY-FAIL {{OBLIGATION}}: stored message attribution %+v differs (origin %q created %d client %q)", r, pk.Origin, pk.Created, cl.ID)
	}
	if rp := r.ToPacket(); rp.Expiry != pk.Expiry || rp.ProtocolVersion != pk.ProtocolVersion {
		t.Fatalf("VERIF-REPLAY-FAIL {{OBLIGATION}}: the version-%d message expires at %d; restored from the store it has protocol version %d and expiry %d: the housekeeping (expired := ProtocolVersion == 5 && Expiry > 0 && Expiry < now) never expires it by its message expiry interval",
			pk.ProtocolVersion, pk.Expiry, rp.ProtocolVersion, rp.Expiry)
	}
	q, p := r.Properties, pk.Properties
	if q.PayloadFormat != p.PayloadFormat || q.MessageExpiryInterval != p.MessageExpiryInterval || q.ContentType != p.ContentType || q.ResponseTopic != p.ResponseTopic || string(q.CorrelationData) != "corr" || len(q.User) != 1 {
		t.Fatalf("VERIF-REPLAY-FAIL {{OBLIGATION}}: stored publish properties %+v differ from the message's %+v", q, p)
	}
	if q.PayloadFormatFlag != p.PayloadFormatFlag {
		t.Fatalf("VERIF-REPLAY-FAIL {{OBLIGATION}}: the message has PayloadFormatFlag=%v (payload format indicator %d), the stored record has %v: after a restart the message is delivered without its payload format indicator",
			p.PayloadFormatFlag, p.PayloadFormat, q.PayloadFormatFlag)
	}
'''

BODY["OnRetainMessage"] = '''// Witness scenario for C20 / C22 (retained messages are restored with payload and properties): a retained message with
// every persisted field non-zero is stored and read back; clearing it deletes the record.
// failed obligation: {{OBLIGATION}}
func TestVerifReplay(t *testing.T) {
SETUP
	cl := verifClient()
	pk := verifPublish()
	h.OnRetainMessage(cl, pk, 1)
	got, err := h.StoredRetainedMessages()
	if err != nil || len(got) != 1 {
		t.Fatalf("VERIF-REPLAY-FAIL {{OBLIGATION}}: one retained message written, %d read back (err %v)", len(got), err)
	}
	r := got[0]
''' + MSGCHECK + '''	h.OnRetainMessage(cl, pk, -1)
	if got, _ = h.StoredRetainedMessages(); len(got) != 0 {
		t.Fatalf("VERIF-REPLAY-FAIL {{OBLIGATION}}: clearing the retained message left %d records", len(got))
	}
}
'''

BODY["OnQosPublish"] = '''// Witness scenario for C20 / C22 (unacknowledged in-flight messages are restored; the back ends return the same in-flight
// messages): an in-flight message with every persisted field non-zero is stored and read back; completing it deletes it.
// failed obligation: {{OBLIGATION}}
func TestVerifReplay(t *testing.T) {
SETUP
	cl := verifClient()
	pk := verifPublish()
	h.OnQosPublish(cl, pk, 4242, 0)
	got, err := h.StoredInflightMessages()
	if err != nil || len(got) != 1 {
		t.Fatalf("VERIF-REPLAY-FAIL {{OBLIGATION}}: one in-flight message written, %d read back (err %v)", len(got), err)
	}
	r := got[0]
	if r.PacketID != pk.PacketID || r.Sent != 4242 {
		t.Fatalf("VERIF-REPLAY-FAIL {{OBLIGATION}}: the in-flight message has packet id %d sent %d; the stored record has packet id %d sent %d: after a restart the message is resent under packet id %d and its acknowledgement cannot be matched",
			pk.PacketID, 4242, r.PacketID, r.Sent, r.PacketID)
	}
''' + MSGCHECK + '''	h.OnQosComplete(cl, pk)
	if got, _ = h.StoredInflightMessages(); len(got) != 0 {
		t.Fatalf("VERIF-REPLAY-FAIL {{OBLIGATION}}: completing the message left %d in-flight records", len(got))
	}
}
'''

for b, (imports, setup) in SETUP.items():
    for ev, body in BODY.items():
        src = HEAD.replace("PKG", b).replace("IMPORTS", imports) + body.replace("SETUP\n", setup)
        with open(os.path.join(ROOT, "%s.Hook.%s.go.tmpl" % (b, ev)), "w") as f:
            f.write(src)
print("written", len(SETUP) * len(BODY), "templates")
