#!/bin/bash
# dump every storage-hook function under contract for one back end (development aid)
b=$1
for f in clientKey subscriptionKey retainedKey inflightKey Hook.updateClient Hook.OnDisconnect Hook.OnSubscribed Hook.OnUnsubscribed Hook.OnRetainMessage Hook.OnQosPublish Hook.OnQosComplete Hook.OnRetainedExpired Hook.OnClientExpired; do
  /verif/bin/vcheck dump ./hooks/storage/$b $b.$f 2>&1 | grep -v "^discharged\|^note" | cut -c1-220 | grep -v "^     "
done
