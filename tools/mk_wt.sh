#!/bin/bash
# tools/mk_wt.sh <name>: scratch worktree of /repo HEAD at /tmp/wt-<name>, with the contract files removed (hidden from git diff)
set -e
WT=/tmp/wt-$1
git -C /repo worktree add --detach -f "$WT" HEAD >/dev/null 2>&1
cd "$WT"
for f in $(git ls-files | grep zz_verif_contracts.go); do git update-index --skip-worktree "$f"; rm -f "$f"; done
mkdir -p _out
echo "$WT"
