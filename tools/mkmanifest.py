#!/usr/bin/env python3
"""Regenerates /verif/MANIFEST.json from props/*.json (claimed checks) and tools/na_reasons.json."""
import json, os, subprocess
V = '/verif'
props = [json.loads(l) for l in open(f'{V}/properties.jsonl')]
na = json.load(open(f'{V}/tools/na_reasons.json'))
# hook commits: every commit in /repo that touches nothing but the guarded contract files (whatever its message says)
hooks_commits = []
for l in subprocess.run(['git','-C','/repo','log','--format=%h'],capture_output=True,text=True).stdout.split():
    files = subprocess.run(['git','-C','/repo','show','--name-only','--format=',l],capture_output=True,text=True).stdout.split()
    if files and all(os.path.basename(f) == 'zz_verif_contracts.go' for f in files):
        hooks_commits.append(l)
checks, not_app, served = [], [], []
for p in props:
    pid = p['id']
    f = f'{V}/props/{pid}.json'
    if os.path.exists(f):
        c = json.load(open(f))
        served.append(pid)
        nd = c.get('not_decided', [])
        note = 'Trusted base: the VC generator (/verif/engine), go/ssa, the SMT solvers, and the trusted library contracts in /verif/spec/*.contracts; sequential semantics (no interference while a function runs).'
        if c.get('assumptions'): note += ' Assumed: ' + '; '.join(c['assumptions']) + '.'
        if nd: note += ' NOT DECIDED by this check: ' + '; '.join(nd) + '.'
        if c.get('bounded'): note += ' Bounded stand-ins (not counted as proved): ' + '; '.join(c['bounded']) + '.'
        checks.append({
            'property_id': pid,
            'quick_cmd': f'./run.sh {pid} quick',
            'thorough_cmd': f'./run.sh {pid} thorough',
            'evidence_file': f'/verif/evidence/{pid}.json',
            'replay_cmd_template': 'cd /repo/<package dir> && go test -overlay <overlay mapping {path} to zz_verif_replay_test.go> -vet=off -run TestVerifReplay   (a .txt replay names the failed obligation and carries the solver output)',
            'engine': 'vcheck',
            'level_claimed': {'category': 'proof', 'text': c.get('level_text', 'Unbounded deductive proof: every obligation (safety, pre, post, loop invariants, frame, lemmas) generated from the current source of the functions under contract is discharged by an SMT solver for all inputs and all iterations.'), 'design_ref': f'DESIGN.md section 4, {pid}'},
            'level_note': note,
            'technique': c.get('technique', 'contract-based deductive verification: weakest-precondition VCs over go/ssa, discharged by z3/cvc5'),
        })
    else:
        not_app.append({'property_id': pid, 'reason': na.get(pid, na['default'])})
m = {'version': 1, 'setup_cmd': './setup.sh',
 'hooks': {'guard': 'verif', 'enable': 'contract files /repo/**/zz_verif_contracts.go carry //go:build verif and contain comments only; the engine loads /repo with -tags=verif', 'baseline_off_cmd': 'cd /repo && go test -vet=off -count=1 -timeout 25m ./...', 'source_commits': hooks_commits, 'add_only': True},
 'engines': [{'name': 'vcheck', 'path': '/verif/engine', 'serves_properties': served, 'kind_free_text': 'home-made verification-condition generator over go/ssa (weakest preconditions, loops cut at invariants, calls replaced by contracts); contracts are //@ comments in build-tag-guarded files in /repo; obligations discharged by z3 5.1.0 / cvc5 1.0 / z3 4.8.12'}],
 'checks': checks,
 'notes': 'Contract-based deductive verification; see DESIGN.md. known_findings.json lists recorded findings and fixed defects.',
 'not_applicable': not_app}
json.dump(m, open(f'{V}/MANIFEST.json', 'w'), indent=1)
print('checks:', len(checks), 'not_applicable:', len(not_app))
