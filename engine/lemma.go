package main

import (
	"fmt"
	"go/types"
	"strings"
)

// lemmaObligations: a lemma is a consequence of contracts/spec functions only (no code).
//   // verif:lemma name arith=int
//   //@ vars x int, y int
//   //@ requires ...
//   //@ ensures ...
func lemmaObligations(E *Engine, name string) ([]*Obl, error) {
	var lm *Lemma
	for _, l := range E.contracts.Lemmas {
		if l.Name == name {
			lm = l
		}
	}
	if lm == nil {
		return nil, fmt.Errorf("lemma %s not found", name)
	}
	g := NewGen(E, nil, "lemma:"+name, &FuncContract{Key: name, Opts: lm.Opts, Loops: map[int]*LoopContract{}})
	g.nativeStr = lm.Opts["strings"] == "native"
	g.entry = &State{reach: "true", store: map[string]string{}}
	g.cur = g.entry.clone()
	g.heapDecl("$alloc", "Int")
	env := &Env{vars: map[string]Val{}, st: g.cur, old: g.entry}
	if len(E.pkgs) > 0 {
		env.pkg = E.pkgs[0].Types
	}
	var err error
	func() {
		defer func() {
			if r := recover(); r != nil {
				if ee, ok := r.(evalErr); ok {
					err = fmt.Errorf("lemma %s: %s", name, string(ee))
					return
				}
				panic(r)
			}
		}()
		for _, b := range lm.Vars {
			t, sort := g.specType(b.Type)
			n := "p." + sanitize(b.Name)
			g.emit("(declare-const %s %s)", n, sort)
			v := Val{T: t, S: n}
			if t == nil {
				v.Sort = sort
			} else {
				g.assume(g.rangeOf(t, n, g.cur))
			}
			env.vars[b.Name] = v
		}
		for i, c := range lm.Clauses {
			if c.E == nil {
				continue
			}
			s, e2 := g.evalBool(env, c.E)
			if e2 != nil {
				err = fmt.Errorf("%s:%d: %v", c.File, c.Line, e2)
				return
			}
			switch c.Kind {
			case "requires":
				g.assume(s)
			case "ensures":
				label := c.Label
				if label == "" {
					label = fmt.Sprintf("%d", i+1)
				}
				g.oblige("lemma", label, s, 0, c.Text)
			}
		}
	}()
	if err != nil {
		return nil, err
	}
	c := g.oblige("cover", "lemma-hypotheses-satisfiable", "true", 0, "")
	c.Cover = true
	return g.obls, nil
}

var _ = strings.TrimSpace
var _ types.Type
