package main

import (
	"fmt"
	"go/constant"
	"go/token"
	"go/types"
	"math/big"
	"strings"

	"golang.org/x/tools/go/ssa"
)

func (g *Gen) val(v ssa.Value) Val {
	switch c := v.(type) {
	case *ssa.Const:
		return g.constVal(c)
	case *ssa.Global:
		return g.globalVal(c)
	case *ssa.Function:
		return Val{T: c.Type(), S: g.funcConst(c)}
	case *ssa.Builtin:
		return Val{T: c.Type(), S: "0"}
	}
	if x, ok := g.vals[v]; ok {
		return x
	}
	// value not yet computed (e.g. defined in an unreachable block)
	x := g.havocVal(v.Type(), "undef."+v.Name())
	g.vals[v] = x
	return x
}

func (g *Gen) funcConst(f *ssa.Function) string {
	n := "fn." + sanitize(f.String())
	if !g.declared[n] {
		g.declared[n] = true
		g.emit("(declare-const %s Int)", n)
		g.emit("(assert (> %s 0))", n)
	}
	return n
}

func (g *Gen) constVal(c *ssa.Const) Val {
	t := c.Type()
	if c.Value == nil {
		return Val{T: t, S: g.zero(t)}
	}
	switch c.Value.Kind() {
	case constant.Bool:
		if constant.BoolVal(c.Value) {
			return Val{T: t, S: "true"}
		}
		return Val{T: t, S: "false"}
	case constant.String:
		return Val{T: t, S: g.strLit(constant.StringVal(c.Value))}
	case constant.Int:
		bi, _ := new(big.Int).SetString(c.Value.ExactString(), 10)
		if isIntType(t) {
			return Val{T: t, S: g.intLit(bi, t), C: bi}
		}
		if b, ok := t.Underlying().(*types.Basic); ok && b.Info()&types.IsFloat != 0 {
			return Val{T: t, S: bi.String() + ".0"}
		}
		return Val{T: t, S: bi.String(), C: bi}
	case constant.Float:
		f, _ := constant.Float64Val(c.Value)
		return Val{T: t, S: fmt.Sprintf("%f", f)}
	}
	g.note("unsupported constant %s", c)
	return g.havocVal(t, "const")
}

func (g *Gen) globalVal(gl *ssa.Global) Val {
	elem := gl.Type().(*types.Pointer).Elem()
	name := "G." + sanitize(gl.Pkg.Pkg.Name()+"."+gl.Name())
	if g.E.immutableGlobal(gl) {
		name = "GI." + sanitize(gl.Pkg.Pkg.Name()+"."+gl.Name())
	}
	g.heapDecl(name, g.sortOf(elem))
	if !g.declared["gifacts:"+name] && strings.HasPrefix(name, "GI.") {
		g.declared["gifacts:"+name] = true
		g.globalInitFacts(gl, name)
	}
	return Val{T: gl.Type(), S: "1", Addr: &Addr{Kind: "global", Heap: name, ElemT: elem}}
}

// ---- arithmetic ----

func typeRange(t types.Type) (lo, hi *big.Int) {
	w, signed, _ := intWidth(t.Underlying().(*types.Basic))
	if signed {
		return new(big.Int).Neg(pow2(w - 1)), new(big.Int).Sub(pow2(w-1), big.NewInt(1))
	}
	return big.NewInt(0), new(big.Int).Sub(pow2(w), big.NewInt(1))
}

func (g *Gen) inRange(t types.Type, s string) string {
	lo, hi := typeRange(t)
	return fmt.Sprintf("(and (<= %s %s) (<= %s %s))", g.intLit(lo, types.Typ[types.Int]), s, s, hi.String())
}

func bigStr(v *big.Int) string {
	if v.Sign() < 0 {
		return "(- " + new(big.Int).Neg(v).String() + ")"
	}
	return v.String()
}

// wrapInt reduces a mathematical integer term into the range of t (Go's wrap-around), int mode.
func (g *Gen) wrapInt(t types.Type, s string) string {
	w, signed, _ := intWidth(t.Underlying().(*types.Basic))
	m := pow2(w).String()
	if !signed {
		return fmt.Sprintf("(mod %s %s)", s, m)
	}
	return fmt.Sprintf("(let ((wm (mod %s %s))) (ite (>= wm %s) (- wm %s) wm))", s, m, pow2(w-1).String(), m)
}

// andConst: x & mask for a non-negative x (int mode), as a sum of bit terms.
func (g *Gen) andConst(x string, mask *big.Int, w int) string {
	// contiguous low mask
	if mask.Sign() == 0 {
		return "0"
	}
	m1 := new(big.Int).Add(mask, big.NewInt(1))
	if m1.BitLen()-1 == mask.BitLen() && new(big.Int).And(m1, mask).Sign() == 0 {
		return fmt.Sprintf("(mod %s %s)", x, m1.String())
	}
	// contiguous run of bits [lo,hi): ((x div 2^lo) mod 2^(hi-lo)) * 2^lo
	lo := 0
	for mask.Bit(lo) == 0 {
		lo++
	}
	hi := mask.BitLen()
	contiguous := true
	for i := lo; i < hi; i++ {
		if mask.Bit(i) == 0 {
			contiguous = false
		}
	}
	if contiguous {
		return fmt.Sprintf("(* %s (mod (div %s %s) %s))", pow2(lo).String(), x, pow2(lo).String(), pow2(hi-lo).String())
	}
	var parts []string
	for i := 0; i < mask.BitLen(); i++ {
		if mask.Bit(i) == 1 {
			parts = append(parts, fmt.Sprintf("(* %s (mod (div %s %s) 2))", pow2(i).String(), x, pow2(i).String()))
		}
	}
	return "(+ " + strings.Join(parts, " ") + ")"
}

func (g *Gen) uf(name string, argSorts []string, res string) string {
	if !g.declared["uf:"+name] {
		g.declared["uf:"+name] = true
		g.emit("(declare-fun %s (%s) %s)", name, strings.Join(argSorts, " "), res)
	}
	return name
}

func (g *Gen) binop(op token.Token, x, y Val, rt types.Type, pos token.Pos, text string) Val {
	xt := x.T
	// comparisons and boolean
	switch op {
	case token.EQL, token.NEQ:
		eq := g.equal(x, y)
		if op == token.NEQ {
			eq = "(not " + eq + ")"
		}
		return Val{T: rt, S: eq}
	case token.LAND:
		return Val{T: rt, S: "(and " + x.S + " " + y.S + ")"}
	case token.LOR:
		return Val{T: rt, S: "(or " + x.S + " " + y.S + ")"}
	}
	if isString(xt) {
		switch op {
		case token.ADD:
			f := g.uf("s.concat", []string{"Str", "Str"}, "Str")
			r := g.define("cat", "Str", fmt.Sprintf("(%s %s %s)", f, x.S, y.S))
			g.assume(fmt.Sprintf("(= (s.len %s) %s)", r, g.add("(s.len "+x.S+")", "(s.len "+y.S+")")))
			if g.mode == ModeInt {
				g.assume(fmt.Sprintf("(forall ((i Int)) (! (and (=> (and (<= 0 i) (< i (s.len %s))) (= (s.at %s i) (s.at %s i))) (=> (and (<= (s.len %s) i) (< i (s.len %s))) (= (s.at %s i) (s.at %s (- i (s.len %s)))))) :pattern ((s.at %s i))))", x.S, r, x.S, x.S, r, r, y.S, x.S, r))
			}
			return Val{T: rt, S: r}
		case token.LSS, token.LEQ, token.GTR, token.GEQ:
			f := g.uf("s.less", []string{"Str", "Str"}, "Bool")
			switch op {
			case token.LSS:
				return Val{T: rt, S: fmt.Sprintf("(%s %s %s)", f, x.S, y.S)}
			case token.GTR:
				return Val{T: rt, S: fmt.Sprintf("(%s %s %s)", f, y.S, x.S)}
			case token.LEQ:
				return Val{T: rt, S: fmt.Sprintf("(not (%s %s %s))", f, y.S, x.S)}
			default:
				return Val{T: rt, S: fmt.Sprintf("(not (%s %s %s))", f, x.S, y.S)}
			}
		}
	}
	if !isIntType(xt) {
		if b, ok := xt.Underlying().(*types.Basic); ok && b.Info()&types.IsFloat != 0 {
			m := map[token.Token]string{token.ADD: "+", token.SUB: "-", token.MUL: "*", token.QUO: "/", token.LSS: "<", token.LEQ: "<=", token.GTR: ">", token.GEQ: ">="}
			if s, ok := m[op]; ok {
				return Val{T: rt, S: fmt.Sprintf("(%s %s %s)", s, x.S, y.S)}
			}
		}
		g.note("unsupported binop %s on %s", op, xt)
		return g.havocVal(rt, "binop")
	}
	w, signed, _ := intWidth(xt.Underlying().(*types.Basic))
	if g.mode == ModeBV {
		return g.binopBV(op, x, y, rt, w, signed, pos)
	}
	a, b := x.S, y.S
	switch op {
	case token.LSS:
		return Val{T: rt, S: "(< " + a + " " + b + ")"}
	case token.LEQ:
		return Val{T: rt, S: "(<= " + a + " " + b + ")"}
	case token.GTR:
		return Val{T: rt, S: "(> " + a + " " + b + ")"}
	case token.GEQ:
		return Val{T: rt, S: "(>= " + a + " " + b + ")"}
	case token.ADD, token.SUB, token.MUL:
		sym := map[token.Token]string{token.ADD: "+", token.SUB: "-", token.MUL: "*"}[op]
		raw := fmt.Sprintf("(%s %s %s)", sym, a, b)
		if x.C != nil && y.C != nil {
			// constant folding keeps terms linear
		}
		if g.wrapOK {
			return Val{T: rt, S: g.define("w", "Int", g.wrapInt(rt, raw))}
		}
		r := g.define("a", "Int", raw)
		g.oblige("arith", "no-wrap "+text, g.inRange(rt, r), pos, text)
		g.assume(g.inRange(rt, r))
		return Val{T: rt, S: r}
	case token.QUO, token.REM:
		g.safe("div-nonzero "+text, "(not (= "+b+" 0))", pos)
		var t string
		if !signed {
			if op == token.QUO {
				t = "(div " + a + " " + b + ")"
			} else {
				t = "(mod " + a + " " + b + ")"
			}
		} else {
			// Go truncates toward zero
			q := fmt.Sprintf("(ite (>= %s 0) (ite (> %s 0) (div %s %s) (- (div %s (- %s)))) (ite (> %s 0) (- (div (- %s) %s)) (div (- %s) (- %s))))", a, b, a, b, a, b, b, a, b, a, b)
			if op == token.QUO {
				t = q
			} else {
				t = fmt.Sprintf("(- %s (* %s %s))", a, b, q)
			}
		}
		return Val{T: rt, S: g.define("q", "Int", t)}
	case token.SHL:
		if y.C != nil && y.C.IsInt64() {
			k := int(y.C.Int64())
			if k >= w {
				return Val{T: rt, S: "0"}
			}
			return Val{T: rt, S: g.define("shl", "Int", g.wrapInt(rt, fmt.Sprintf("(* %s %s)", a, pow2(k).String())))}
		}
	case token.SHR:
		if y.C != nil && y.C.IsInt64() {
			k := int(y.C.Int64())
			if k >= w && !signed {
				return Val{T: rt, S: "0"}
			}
			return Val{T: rt, S: g.define("shr", "Int", fmt.Sprintf("(div %s %s)", a, pow2(k).String()))}
		}
	case token.AND:
		if !signed {
			if y.C != nil {
				return Val{T: rt, S: g.define("and", "Int", g.andConst(a, y.C, w))}
			}
			if x.C != nil {
				return Val{T: rt, S: g.define("and", "Int", g.andConst(b, x.C, w))}
			}
		}
	case token.OR:
		if !signed {
			if y.C != nil {
				return Val{T: rt, S: g.define("or", "Int", fmt.Sprintf("(- (+ %s %s) %s)", a, b, g.andConst(a, y.C, w)))}
			}
			if x.C != nil {
				return Val{T: rt, S: g.define("or", "Int", fmt.Sprintf("(- (+ %s %s) %s)", a, b, g.andConst(b, x.C, w)))}
			}
		}
	case token.XOR:
		if !signed && y.C != nil {
			return Val{T: rt, S: g.define("xor", "Int", fmt.Sprintf("(- (+ %s %s) (* 2 %s))", a, b, g.andConst(a, y.C, w)))}
		}
	case token.AND_NOT:
		if !signed && y.C != nil {
			return Val{T: rt, S: g.define("andnot", "Int", fmt.Sprintf("(- %s %s)", a, g.andConst(a, y.C, w)))}
		}
	}
	// general bit operation in int mode: uninterpreted, range-constrained
	g.note("bit operation %s abstracted in int mode (%s)", op, text)
	f := g.uf(fmt.Sprintf("bit.%s.%d", sanitize(op.String()), w), []string{"Int", "Int"}, "Int")
	r := g.define("bit", "Int", fmt.Sprintf("(%s %s %s)", f, a, b))
	g.assume(g.inRange(rt, r))
	return Val{T: rt, S: r}
}

func (g *Gen) binopBV(op token.Token, x, y Val, rt types.Type, w int, signed bool, pos token.Pos) Val {
	a, b := x.S, y.S
	cmp := func(s, u string) Val {
		if signed {
			return Val{T: rt, S: "(" + s + " " + a + " " + b + ")"}
		}
		return Val{T: rt, S: "(" + u + " " + a + " " + b + ")"}
	}
	sort := fmt.Sprintf("(_ BitVec %d)", w)
	switch op {
	case token.LSS:
		return cmp("bvslt", "bvult")
	case token.LEQ:
		return cmp("bvsle", "bvule")
	case token.GTR:
		return cmp("bvsgt", "bvugt")
	case token.GEQ:
		return cmp("bvsge", "bvuge")
	case token.ADD:
		return Val{T: rt, S: g.define("a", sort, "(bvadd "+a+" "+b+")")}
	case token.SUB:
		return Val{T: rt, S: g.define("a", sort, "(bvsub "+a+" "+b+")")}
	case token.MUL:
		return Val{T: rt, S: g.define("a", sort, "(bvmul "+a+" "+b+")")}
	case token.QUO, token.REM:
		g.safe("div-nonzero", "(not (= "+b+" "+g.intLit(big.NewInt(0), x.T)+"))", pos)
		o := map[bool]map[token.Token]string{true: {token.QUO: "bvsdiv", token.REM: "bvsrem"}, false: {token.QUO: "bvudiv", token.REM: "bvurem"}}[signed][op]
		return Val{T: rt, S: g.define("q", sort, "("+o+" "+a+" "+b+")")}
	case token.AND:
		return Val{T: rt, S: g.define("b", sort, "(bvand "+a+" "+b+")")}
	case token.OR:
		return Val{T: rt, S: g.define("b", sort, "(bvor "+a+" "+b+")")}
	case token.XOR:
		return Val{T: rt, S: g.define("b", sort, "(bvxor "+a+" "+b+")")}
	case token.AND_NOT:
		return Val{T: rt, S: g.define("b", sort, "(bvand "+a+" (bvnot "+b+"))")}
	case token.SHL, token.SHR:
		// shift count: any unsigned (or non-negative) integer type
		yw, _, _ := intWidth(y.T.Underlying().(*types.Basic))
		cnt := b
		var over string
		if yw > w {
			over = fmt.Sprintf("(bvuge %s (_ bv%d %d))", b, w, yw)
			cnt = fmt.Sprintf("((_ extract %d 0) %s)", w-1, b)
		} else if yw < w {
			cnt = fmt.Sprintf("((_ zero_extend %d) %s)", w-yw, b)
		}
		var t string
		if op == token.SHL {
			t = "(bvshl " + a + " " + cnt + ")"
		} else if signed {
			t = "(bvashr " + a + " " + cnt + ")"
		} else {
			t = "(bvlshr " + a + " " + cnt + ")"
		}
		if over != "" {
			z := g.intLit(big.NewInt(0), x.T)
			if op == token.SHR && signed {
				z = fmt.Sprintf("(bvashr %s (_ bv%d %d))", a, w-1, w)
			}
			t = fmt.Sprintf("(ite %s %s %s)", over, z, t)
		}
		return Val{T: rt, S: g.define("sh", sort, t)}
	}
	g.note("unsupported bv binop %s", op)
	return g.havocVal(rt, "binop")
}

// equal builds the equality of two values of the same Go type.
func (g *Gen) equal(x, y Val) string {
	if x.Addr != nil || y.Addr != nil {
		if x.Addr != nil && y.Addr != nil {
			if x.Addr.Heap == y.Addr.Heap && x.Addr.Base == y.Addr.Base && x.Addr.Idx == y.Addr.Idx {
				return "true"
			}
		}
		// comparison of a symbolic address with nil: addresses are never nil
		if x.Addr == nil && x.S == "0" || y.Addr == nil && y.S == "0" {
			return "false"
		}
		g.note("comparison of symbolic addresses abstracted")
		return g.fresh("addrcmp", "Bool")
	}
	if isString(x.T) {
		g.strEqFacts(x.S, y.S)
	}
	return "(= " + x.S + " " + y.S + ")"
}

// strEqFacts: when one side is a literal, tie (= x lit) to content equality.
func (g *Gen) strEqFacts(a, b string) {
	if g.inQuant > 0 {
		return // the terms may mention bound variables: no top-level fact
	}
	for _, p := range [][2]string{{a, b}, {b, a}} {
		x, l := p[0], p[1]
		if !strings.HasPrefix(l, "lit.") || strings.HasPrefix(x, "lit.") {
			continue
		}
		key := "streq:" + x + ":" + l
		if g.declared[key] {
			return
		}
		g.declared[key] = true
		var content string
		for s, n := range g.strLits {
			if n == l {
				content = s
			}
		}
		if len(content) > 64 {
			return
		}
		parts := []string{fmt.Sprintf("(= (s.len %s) %s)", x, g.idxLit(int64(len(content))))}
		for i := 0; i < len(content); i++ {
			parts = append(parts, fmt.Sprintf("(= (s.at %s %s) %s)", x, g.idxLit(int64(i)), g.intLit(big.NewInt(int64(content[i])), types.Typ[types.Uint8])))
		}
		// extensionality instance (true of real strings): same content => same string.
		// Unconditional fact, so it is emitted as a top-level assertion.
		g.emit("(assert (= (= %s %s) (and %s)))", x, l, strings.Join(parts, " "))
		return
	}
}

func (g *Gen) convert(x Val, to types.Type, pos token.Pos) Val {
	from := x.T
	if isIntType(from) && isIntType(to) {
		return Val{T: to, S: g.convertInt(x, to), C: nil}
	}
	fu, tu := from.Underlying(), to.Underlying()
	if isString(to) {
		if sl, ok := fu.(*types.Slice); ok {
			// string(bytes)
			_ = sl
			return g.bytesToStr(x)
		}
		if isIntType(from) {
			f := g.uf("s.ofrune", []string{g.sortOf(from)}, "Str")
			return Val{T: to, S: fmt.Sprintf("(%s %s)", f, x.S)}
		}
		if isString(from) {
			return Val{T: to, S: x.S}
		}
	}
	if sl, ok := tu.(*types.Slice); ok && isString(from) {
		if b, ok := sl.Elem().Underlying().(*types.Basic); ok && b.Kind() == types.Uint8 {
			return g.strToBytes(x, to)
		}
	}
	if _, ok := tu.(*types.Pointer); ok {
		if _, ok := fu.(*types.Basic); ok { // unsafe.Pointer -> *T
			g.note("unsafe pointer conversion abstracted")
			return g.havocVal(to, "unsafe")
		}
	}
	if b, ok := tu.(*types.Basic); ok && b.Kind() == types.UnsafePointer {
		g.note("conversion to unsafe.Pointer abstracted")
		return Val{T: to, S: "1"}
	}
	fb, fok := fu.(*types.Basic)
	tb, tok := tu.(*types.Basic)
	if fok && tok {
		if fb.Info()&types.IsFloat != 0 && tb.Info()&types.IsFloat != 0 {
			return Val{T: to, S: x.S}
		}
		if fb.Info()&types.IsFloat != 0 || tb.Info()&types.IsFloat != 0 {
			g.note("float/int conversion abstracted")
			return g.havocVal(to, "fconv")
		}
	}
	if g.sortOf(from) == g.sortOf(to) {
		return Val{T: to, S: x.S, Addr: x.Addr}
	}
	g.note("unsupported conversion %s -> %s", from, to)
	return g.havocVal(to, "conv")
}

func (g *Gen) convertInt(x Val, to types.Type) string {
	fw, fs, _ := intWidth(x.T.Underlying().(*types.Basic))
	tw, ts, _ := intWidth(to.Underlying().(*types.Basic))
	if g.mode == ModeBV {
		switch {
		case tw == fw:
			return x.S
		case tw < fw:
			return g.define("cv", fmt.Sprintf("(_ BitVec %d)", tw), fmt.Sprintf("((_ extract %d 0) %s)", tw-1, x.S))
		case fs:
			return g.define("cv", fmt.Sprintf("(_ BitVec %d)", tw), fmt.Sprintf("((_ sign_extend %d) %s)", tw-fw, x.S))
		default:
			return g.define("cv", fmt.Sprintf("(_ BitVec %d)", tw), fmt.Sprintf("((_ zero_extend %d) %s)", tw-fw, x.S))
		}
	}
	flo, fhi := typeRange(x.T)
	tlo, thi := typeRange(to)
	_ = ts
	if x.C != nil {
		flo, fhi = x.C, x.C
	}
	if flo.Cmp(tlo) >= 0 && fhi.Cmp(thi) <= 0 {
		return x.S
	}
	return g.define("cv", "Int", g.wrapInt(to, x.S))
}

func (g *Gen) bytesToStr(x Val) Val {
	eh := g.arrHeap(types.Typ[types.Uint8])
	f := g.uf("s.ofbytes", []string{"(Array " + g.idxSort() + " " + g.sortOf(types.Typ[types.Uint8]) + ")", g.idxSort(), g.idxSort()}, "Str")
	arr := fmt.Sprintf("(select %s (sl.ref %s))", g.heapGet(g.cur, eh), x.S)
	r := g.define("str", "Str", fmt.Sprintf("(%s %s (sl.off %s) (sl.len %s))", f, arr, x.S, x.S))
	g.assume(fmt.Sprintf("(= (s.len %s) (sl.len %s))", r, x.S))
	i := g.idxSort()
	g.assume(fmt.Sprintf("(forall ((i %s)) (! (=> (and %s %s) (= (s.at %s i) (select %s %s))) :pattern ((s.at %s i))))", i, g.le(g.idxLit(0), "i"), g.lt("i", "(sl.len "+x.S+")"), r, arr, g.add("(sl.off "+x.S+")", "i"), r))
	return Val{T: types.Typ[types.String], S: r}
}

func (g *Gen) strToBytes(x Val, to types.Type) Val {
	eh := g.arrHeap(types.Typ[types.Uint8])
	ref := g.allocRef(g.cur)
	arrSort := "(Array " + g.idxSort() + " " + g.sortOf(types.Typ[types.Uint8]) + ")"
	arr := g.fresh("bytes", arrSort)
	i := g.idxSort()
	g.assume(fmt.Sprintf("(forall ((i %s)) (! (=> (and %s %s) (= (select %s i) (s.at %s i))) :pattern ((select %s i))))", i, g.le(g.idxLit(0), "i"), g.lt("i", "(s.len "+x.S+")"), arr, x.S, arr))
	g.heapSet(g.cur, eh, fmt.Sprintf("(store %s %s %s)", g.heapGet(g.cur, eh), ref, arr))
	z := g.idxLit(0)
	return Val{T: to, S: g.define("sl", "Slice", fmt.Sprintf("(mk-slice %s %s (s.len %s) (s.len %s))", ref, z, x.S, x.S))}
}

// allocRef returns a fresh object reference.
func (g *Gen) allocRef(st *State) string {
	cur := g.heapGet(st, "$alloc")
	r := g.define("ref", "Int", cur)
	g.heapSet(st, "$alloc", "(+ "+cur+" 1)")
	g.assume("(and (> " + r + " 0) (= (ref.root " + r + ") " + r + "))")
	return r
}

// ---- instruction execution ----

func (g *Gen) exec(in ssa.Instruction) {
	switch x := in.(type) {
	case *ssa.DebugRef:
		return
	case *ssa.Phi:
		return // handled at block entry
	case *ssa.BinOp:
		g.vals[x] = g.binop(x.Op, g.val(x.X), g.val(x.Y), x.Type(), x.Pos(), g.E.srcText(x))
	case *ssa.UnOp:
		g.vals[x] = g.unop(x)
	case *ssa.Convert:
		g.vals[x] = g.convert(g.val(x.X), x.Type(), x.Pos())
	case *ssa.ChangeType:
		v := g.val(x.X)
		if fs, ok := x.X.Type().Underlying().(*types.Struct); ok && v.Addr == nil {
			if ts, ok := x.Type().Underlying().(*types.Struct); ok && g.sortOf(x.X.Type()) != g.sortOf(x.Type()) && fs.NumFields() == ts.NumFields() {
				// conversion between two struct types with identical fields: rebuild the value field by field
				g.vals[x] = Val{T: x.Type(), S: g.define("conv", g.sortOf(x.Type()), g.convStruct(x.X.Type(), x.Type(), v.S))}
				return
			}
		}
		g.vals[x] = Val{T: x.Type(), S: v.S, Addr: v.Addr, C: v.C}
	case *ssa.ChangeInterface:
		v := g.val(x.X)
		g.vals[x] = Val{T: x.Type(), S: v.S}
	case *ssa.MakeInterface:
		g.vals[x] = g.makeInterface(g.val(x.X), x.Type())
	case *ssa.TypeAssert:
		g.vals[x] = g.typeAssert(x)
	case *ssa.Extract:
		t := g.val(x.Tuple)
		if x.Index < len(t.Tuple) {
			g.vals[x] = t.Tuple[x.Index]
		} else {
			g.vals[x] = g.havocVal(x.Type(), "extract")
		}
	case *ssa.Alloc:
		g.vals[x] = g.alloc(x)
	case *ssa.FieldAddr:
		g.vals[x] = g.fieldAddr(x)
	case *ssa.Field:
		g.vals[x] = g.field(x)
	case *ssa.IndexAddr:
		g.vals[x] = g.indexAddr(x)
	case *ssa.Index:
		g.vals[x] = g.index(x)
	case *ssa.Lookup:
		g.vals[x] = g.lookup(x)
	case *ssa.Slice:
		g.vals[x] = g.slice(x)
	case *ssa.MakeSlice:
		g.vals[x] = g.makeSlice(x)
	case *ssa.MakeMap:
		g.vals[x] = g.makeMap(x)
	case *ssa.MapUpdate:
		g.mapUpdate(x)
	case *ssa.Store:
		addr := g.val(x.Addr)
		elem := x.Addr.Type().Underlying().(*types.Pointer).Elem()
		if addr.Addr == nil {
			g.nonNil(addr, x.Pos(), g.E.srcText(x))
		}
		g.storeTo(g.cur, addr, elem, g.val(x.Val))
	case *ssa.Call:
		g.vals[x] = g.call(x, &x.Call, x.Type())
	case *ssa.Defer:
		g.cur.defers = append(g.cur.defers, x)
	case *ssa.RunDefers:
		ds := g.cur.defers
		g.cur.defers = nil
		for i := len(ds) - 1; i >= 0; i-- {
			g.call(ds[i], &ds[i].Call, nil)
		}
	case *ssa.Go:
		g.note("go statement: spawned function %s not analysed here", x.Call.Value.Name())
	case *ssa.Return:
		g.doReturn(x)
	case *ssa.If, *ssa.Jump:
		return
	case *ssa.Panic:
		g.oblige("safe", "no-explicit-panic", "false", x.Pos(), "")
		g.cur.reach = "false"
		g.cur.dead = true
	case *ssa.MakeClosure:
		g.vals[x] = g.makeClosure(x)
	case *ssa.MakeChan:
		g.vals[x] = Val{T: x.Type(), S: g.allocRef(g.cur)}
	case *ssa.Send:
		g.note("channel send abstracted (blocking not analysed)")
	case *ssa.Select:
		g.note("select abstracted (nondeterministic choice)")
		g.vals[x] = g.selectInstr(x)
	case *ssa.Range:
		g.vals[x] = g.rangeInstr(x)
	case *ssa.Next:
		g.vals[x] = g.nextInstr(x)
	case *ssa.SliceToArrayPointer, *ssa.MultiConvert:
		g.note("unsupported instruction %T", in)
		g.vals[in.(ssa.Value)] = g.havocVal(in.(ssa.Value).Type(), "unsup")
	default:
		g.note("unsupported instruction %T", in)
		if v, ok := in.(ssa.Value); ok {
			g.vals[v] = g.havocVal(v.Type(), "unsup")
		}
	}
}

// convStruct converts a struct value between two struct types whose fields correspond one to one.
func (g *Gen) convStruct(from, to types.Type, term string) string {
	fs, ts := from.Underlying().(*types.Struct), to.Underlying().(*types.Struct)
	fsort, tsort := g.structSort(from), g.structSort(to)
	if fs.NumFields() == 0 {
		return "mk." + tsort
	}
	var parts []string
	for i := 0; i < ts.NumFields(); i++ {
		sel := fmt.Sprintf("(%s.%s %s)", fsort, sanitize(fs.Field(i).Name()), term)
		if _, nested := ts.Field(i).Type().Underlying().(*types.Struct); nested && g.sortOf(fs.Field(i).Type()) != g.sortOf(ts.Field(i).Type()) {
			sel = g.convStruct(fs.Field(i).Type(), ts.Field(i).Type(), sel)
		}
		parts = append(parts, sel)
	}
	return "(mk." + tsort + " " + strings.Join(parts, " ") + ")"
}

func (g *Gen) nonNil(p Val, pos token.Pos, text string) {
	if p.Addr != nil {
		return
	}
	g.safe("nonnil "+text, "(not (= "+p.S+" 0))", pos)
}

func (g *Gen) unop(x *ssa.UnOp) Val {
	v := g.val(x.X)
	switch x.Op {
	case token.MUL:
		elem := x.X.Type().Underlying().(*types.Pointer).Elem()
		if v.Addr == nil {
			g.nonNil(v, x.Pos(), g.E.srcText(x))
		}
		return g.load(g.cur, v, elem)
	case token.NOT:
		return Val{T: x.Type(), S: "(not " + v.S + ")"}
	case token.SUB:
		if g.mode == ModeBV {
			return Val{T: x.Type(), S: "(bvneg " + v.S + ")"}
		}
		if isIntType(x.Type()) {
			_, signed, _ := intWidth(x.Type().Underlying().(*types.Basic))
			if !signed || g.wrapOK {
				return Val{T: x.Type(), S: g.define("neg", "Int", g.wrapInt(x.Type(), "(- "+v.S+")"))}
			}
		}
		return Val{T: x.Type(), S: "(- " + v.S + ")"}
	case token.XOR:
		if g.mode == ModeBV {
			return Val{T: x.Type(), S: "(bvnot " + v.S + ")"}
		}
		_, hi := typeRange(x.Type())
		_, signed, _ := intWidth(x.Type().Underlying().(*types.Basic))
		if signed {
			return Val{T: x.Type(), S: "(- (- " + v.S + ") 1)"}
		}
		return Val{T: x.Type(), S: "(- " + hi.String() + " " + v.S + ")"}
	case token.ARROW:
		g.note("channel receive abstracted (blocking not analysed)")
		if qc, ok := g.E.contracts.Ghosts["qcur"]; ok && g.mode == ModeInt {
			if ch := g.val(x.X); ch.Addr == nil {
				hc, _, _, _ := g.ghostHeap(qc)
				curC := g.heapGet(g.cur, hc)
				g.heapSet(g.cur, hc, fmt.Sprintf("(store %s %s (ite (> (select %s %s) 0) (- (select %s %s) 1) 0))", curC, ch.S, curC, ch.S, curC, ch.S))
			}
		}
		return g.havocVal(x.Type(), "recv")
	}
	g.note("unsupported unop %s", x.Op)
	return g.havocVal(x.Type(), "unop")
}

func (g *Gen) typeTag(t types.Type) (int, string) {
	id := typeID(t)
	for i, s := range g.typeTags {
		if s == id {
			return i + 1, id
		}
	}
	g.typeTags = append(g.typeTags, id)
	return len(g.typeTags), id
}

func (g *Gen) makeInterface(v Val, it types.Type) Val {
	if v.Addr != nil {
		g.note("symbolic address boxed into interface: abstracted")
		return g.havocVal(it, "box")
	}
	tag, id := g.typeTag(v.T)
	sort := g.sortOf(v.T)
	box := g.uf("box."+id, []string{sort}, "Iface")
	g.uf("unbox."+id, []string{"Iface"}, sort)
	term := fmt.Sprintf("(%s %s)", box, v.S)
	r := g.define("ifc", "Iface", term)
	key := "boxinst:" + term
	if !g.declared[key] {
		g.declared[key] = true
		g.assume(fmt.Sprintf("(and (not (= %s iface.nil)) (= (iface.type %s) %d) (= (unbox.%s %s) %s))", r, r, tag, id, r, v.S))
		if _, isPtr := v.T.Underlying().(*types.Pointer); isPtr {
			g.uf("iface.ref", []string{"Iface"}, "Int")
			g.assume(fmt.Sprintf("(= (iface.ref %s) %s)", r, v.S))
		}
	}
	return Val{T: it, S: r}
}

func (g *Gen) typeAssert(x *ssa.TypeAssert) Val {
	v := g.val(x.X)
	if _, isIface := x.AssertedType.Underlying().(*types.Interface); isIface {
		ok := g.fresh("taok", "Bool")
		g.assume(fmt.Sprintf("(=> %s (not (= %s iface.nil)))", ok, v.S))
		if x.CommaOk {
			return Val{T: x.Type(), Tuple: []Val{{T: x.AssertedType, S: fmt.Sprintf("(ite %s %s iface.nil)", ok, v.S)}, {T: types.Typ[types.Bool], S: ok}}}
		}
		g.safe("type-assert "+g.E.srcText(x), ok, x.Pos())
		return Val{T: x.AssertedType, S: v.S}
	}
	tag, id := g.typeTag(x.AssertedType)
	sort := g.sortOf(x.AssertedType)
	g.uf("box."+id, []string{sort}, "Iface")
	unbox := g.uf("unbox."+id, []string{"Iface"}, sort)
	ok := fmt.Sprintf("(= (iface.type %s) %d)", v.S, tag)
	res := Val{T: x.AssertedType, S: g.define("ta", sort, fmt.Sprintf("(%s %s)", unbox, v.S))}
	g.assume(fmt.Sprintf("(=> %s %s)", ok, g.rangeOf(x.AssertedType, res.S, g.cur)))
	if _, isPtr := x.AssertedType.Underlying().(*types.Pointer); isPtr {
		g.uf("iface.ref", []string{"Iface"}, "Int")
		g.assume(fmt.Sprintf("(=> %s (= %s (iface.ref %s)))", ok, res.S, v.S))
	}
	if x.CommaOk {
		res.S = g.define("ta", sort, fmt.Sprintf("(ite %s %s %s)", ok, res.S, g.zero(x.AssertedType)))
		return Val{T: x.Type(), Tuple: []Val{res, {T: types.Typ[types.Bool], S: ok}}}
	}
	g.safe("type-assert "+g.E.srcText(x), ok, x.Pos())
	return res
}

func (g *Gen) alloc(x *ssa.Alloc) Val {
	elem := x.Type().Underlying().(*types.Pointer).Elem()
	switch et := elem.Underlying().(type) {
	case *types.Struct:
		if g.isCellAlloc(x) {
			// a local struct whose address never escapes: held as one value (no heap fields)
			name := g.cellName(x)
			g.cur.store[name] = g.zero(elem)
			return Val{T: x.Type(), S: "1", Addr: &Addr{Kind: "cell", Heap: name, ElemT: elem}}
		}
		r := g.allocRef(g.cur)
		g.storeStruct(g.cur, elem, r, g.zero(elem))
		// ghost fields declared "zero:<type>" start at zero for a newly allocated object of that type
		for _, gd := range g.E.contracts.Ghosts {
			if gd.Kind == "field" && gd.ZeroFor == typeID(elem) {
				heap, _, valSort, valT := g.ghostHeap(gd)
				if valT != nil {
					g.heapSet(g.cur, heap, fmt.Sprintf("(store %s %s %s)", g.heapGet(g.cur, heap), r, g.zero(valT)))
				} else if strings.HasPrefix(valSort, "(Array ") && strings.HasSuffix(valSort, " Bool)") {
					// a ghost set starts empty
					g.heapSet(g.cur, heap, fmt.Sprintf("(store %s %s ((as const %s) false))", g.heapGet(g.cur, heap), r, valSort))
				}
			}
		}
		return Val{T: x.Type(), S: r}
	case *types.Array:
		r := g.allocRef(g.cur)
		h := g.arrHeap(et.Elem())
		g.heapSet(g.cur, h, fmt.Sprintf("(store %s %s %s)", g.heapGet(g.cur, h), r, g.zero(elem)))
		return Val{T: x.Type(), S: r}
	}
	name := fmt.Sprintf("cell.%s.%s", sanitize(g.fn.Name()), x.Name())
	if x.Comment != "" {
		name += "." + sanitize(x.Comment)
	}
	g.heapDecl(name, g.sortOf(elem))
	g.cur.store[name] = g.zero(elem)
	return Val{T: x.Type(), S: "1", Addr: &Addr{Kind: "cell", Heap: name, ElemT: elem}}
}

// isCellAlloc: a struct allocation that is only read/written through field addresses and whole
// loads/stores (its address is never passed, stored or merged) can be modelled as a single value.
func (g *Gen) isCellAlloc(a *ssa.Alloc) bool {
	if v, ok := g.cellAllocs[a]; ok {
		return v
	}
	if g.cellAllocs == nil {
		g.cellAllocs = map[*ssa.Alloc]bool{}
	}
	elem := a.Type().Underlying().(*types.Pointer).Elem()
	_, isStruct := elem.Underlying().(*types.Struct)
	for _, gd := range g.E.contracts.Ghosts {
		if gd.Kind == "field" && gd.ZeroFor == typeID(elem) {
			// objects of this type carry ghost state: they keep their identity (heap object, not a value)
			g.cellAllocs[a] = false
			return false
		}
	}
	var ok func(v ssa.Value) bool
	ok = func(v ssa.Value) bool {
		refs := v.Referrers()
		if refs == nil {
			return false
		}
		for _, r := range *refs {
			switch x := r.(type) {
			case *ssa.DebugRef:
			case *ssa.UnOp:
				if x.Op != token.MUL {
					return false
				}
			case *ssa.Store:
				if x.Val == v {
					return false
				}
			case *ssa.FieldAddr:
				if !ok(x) {
					return false
				}
			case *ssa.Call:
				// &local passed to a callee that is used through its contract: copy-in / copy-out
				if v != ssa.Value(a) {
					return false
				}
				f, isFn := x.Call.Value.(*ssa.Function)
				if !isFn || x.Call.IsInvoke() {
					return false
				}
				fc := g.E.contracts.Funcs[funcKey(f)]
				if fc == nil || fc.Opts["inline"] == "true" {
					return false
				}
			case *ssa.Select:
				// &local sent on a channel: the receiver gets a copy of the value as of the send
				// (sequential semantics; later writes by the receiver are not seen here)
				if v != ssa.Value(a) {
					return false
				}
				for _, st := range x.States {
					if st.Chan == v {
						return false
					}
				}
			default:
				return false
			}
		}
		return true
	}
	res := isStruct && ok(a)
	g.cellAllocs[a] = res
	return res
}

func (g *Gen) fieldAddr(x *ssa.FieldAddr) Val {
	base := g.val(x.X)
	st := x.X.Type().Underlying().(*types.Pointer).Elem()
	f := st.Underlying().(*types.Struct).Field(x.Field)
	if base.Addr != nil {
		// field of a struct held by value in a cell / element
		a := *base.Addr
		a.Path = append(append([]pathStep(nil), a.Path...), pathStep{st, x.Field})
		a.ElemT = f.Type()
		return Val{T: x.Type(), S: "1", Addr: &a}
	}
	g.nonNil(base, x.Pos(), g.E.srcText(x))
	if _, ok := f.Type().Underlying().(*types.Struct); ok {
		return Val{T: x.Type(), S: g.subRef(st, x.Field, base.S)}
	}
	return Val{T: x.Type(), S: "1", Addr: &Addr{Kind: "field", Heap: g.fieldHeap(st, x.Field), Base: base.S, ElemT: f.Type()}}
}

func (g *Gen) field(x *ssa.Field) Val {
	base := g.val(x.X)
	sort := g.structSort(x.X.Type())
	f := x.X.Type().Underlying().(*types.Struct).Field(x.Field)
	return Val{T: x.Type(), S: g.define("fld", g.sortOf(f.Type()), fmt.Sprintf("(%s.%s %s)", sort, sanitize(f.Name()), base.S))}
}

func (g *Gen) indexAddr(x *ssa.IndexAddr) Val {
	base := g.val(x.X)
	idx := g.toIdx(g.val(x.Index))
	switch bt := x.X.Type().Underlying().(type) {
	case *types.Slice:
		g.safe("index "+g.E.srcText(x), fmt.Sprintf("(and %s %s)", g.le(g.idxLit(0), idx), g.lt(idx, "(sl.len "+base.S+")")), x.Pos())
		return Val{T: x.Type(), S: "1", Addr: &Addr{Kind: "elem", Heap: g.arrHeap(bt.Elem()), Base: "(sl.ref " + base.S + ")", Idx: g.define("ix", g.idxSort(), g.add("(sl.off "+base.S+")", idx)), Off: "(sl.off " + base.S + ")", I: idx, ElemT: bt.Elem(), ElemRootT: bt.Elem()}}
	case *types.Pointer:
		arr := bt.Elem().Underlying().(*types.Array)
		g.safe("index "+g.E.srcText(x), fmt.Sprintf("(and %s %s)", g.le(g.idxLit(0), idx), g.lt(idx, g.idxLit(arr.Len()))), x.Pos())
		if base.Addr != nil {
			g.note("index into array held in a cell: abstracted")
			return g.havocVal(x.Type(), "ixa")
		}
		return Val{T: x.Type(), S: "1", Addr: &Addr{Kind: "elem", Heap: g.arrHeap(arr.Elem()), Base: base.S, Idx: idx, ElemT: arr.Elem()}}
	}
	g.note("unsupported IndexAddr on %s", x.X.Type())
	return g.havocVal(x.Type(), "ixa")
}

// toIdx converts an integer value to the index sort.
func (g *Gen) toIdx(v Val) string {
	if g.mode == ModeBV {
		return g.convertInt(v, types.Typ[types.Int])
	}
	return v.S
}

func (g *Gen) index(x *ssa.Index) Val {
	base := g.val(x.X)
	idx := g.toIdx(g.val(x.Index))
	switch bt := x.X.Type().Underlying().(type) {
	case *types.Array:
		g.safe("index "+g.E.srcText(x), fmt.Sprintf("(and %s %s)", g.le(g.idxLit(0), idx), g.lt(idx, g.idxLit(bt.Len()))), x.Pos())
		return Val{T: x.Type(), S: g.define("ix", g.sortOf(x.Type()), fmt.Sprintf("(select %s %s)", base.S, idx))}
	}
	if isString(x.X.Type()) {
		g.safe("index "+g.E.srcText(x), fmt.Sprintf("(and %s %s)", g.le(g.idxLit(0), idx), g.lt(idx, "(s.len "+base.S+")")), x.Pos())
		r := Val{T: x.Type(), S: g.define("ch", g.sortOf(x.Type()), fmt.Sprintf("(s.at %s %s)", base.S, idx))}
		g.assume(g.rangeOf(x.Type(), r.S, g.cur))
		return r
	}
	g.note("unsupported Index on %s", x.X.Type())
	return g.havocVal(x.Type(), "ix")
}

func (g *Gen) lookup(x *ssa.Lookup) Val {
	base := g.val(x.X)
	if isString(x.X.Type()) {
		idx := g.toIdx(g.val(x.Index))
		g.safe("index "+g.E.srcText(x), fmt.Sprintf("(and %s %s)", g.le(g.idxLit(0), idx), g.lt(idx, "(s.len "+base.S+")")), x.Pos())
		r := Val{T: x.Type(), S: g.define("ch", g.sortOf(types.Typ[types.Uint8]), fmt.Sprintf("(s.at %s %s)", base.S, idx))}
		g.assume(g.rangeOf(types.Typ[types.Uint8], r.S, g.cur))
		return r
	}
	mt := x.X.Type().Underlying().(*types.Map)
	k := g.val(x.Index)
	if k.Addr != nil {
		g.note("map lookup with symbolic address key abstracted")
		return g.havocVal(x.Type(), "lk")
	}
	dom, val := g.mapHeaps(mt)
	present := g.define("has", "Bool", fmt.Sprintf("(and (not (= %s 0)) (select (select %s %s) %s))", base.S, g.heapGet(g.cur, dom), base.S, k.S))
	v := g.define("mv", g.sortOf(mt.Elem()), fmt.Sprintf("(ite %s (select (select %s %s) %s) %s)", present, g.heapGet(g.cur, val), base.S, k.S, g.zero(mt.Elem())))
	g.assume(g.rangeOf(mt.Elem(), v, g.cur))
	if x.CommaOk {
		return Val{T: x.Type(), Tuple: []Val{{T: mt.Elem(), S: v}, {T: types.Typ[types.Bool], S: present}}}
	}
	return Val{T: mt.Elem(), S: v}
}

func (g *Gen) slice(x *ssa.Slice) Val {
	base := g.val(x.X)
	z := g.idxLit(0)
	lo := z
	if x.Low != nil {
		lo = g.toIdx(g.val(x.Low))
	}
	text := g.E.srcText(x)
	if isString(x.X.Type()) {
		hi := "(s.len " + base.S + ")"
		if x.High != nil {
			hi = g.toIdx(g.val(x.High))
		}
		g.safe("slice "+text, fmt.Sprintf("(and %s %s %s)", g.le(z, lo), g.le(lo, hi), g.le(hi, "(s.len "+base.S+")")), x.Pos())
		if x.Low == nil && x.High == nil {
			return Val{T: x.Type(), S: base.S}
		}
		return g.substr(base.S, lo, hi, x.Type())
	}
	switch bt := x.X.Type().Underlying().(type) {
	case *types.Slice:
		hi := "(sl.len " + base.S + ")"
		if x.High != nil {
			hi = g.toIdx(g.val(x.High))
		}
		capv := "(sl.cap " + base.S + ")"
		mx := capv
		if x.Max != nil {
			mx = g.toIdx(g.val(x.Max))
			g.safe("slice "+text, fmt.Sprintf("(and %s %s %s %s)", g.le(z, lo), g.le(lo, hi), g.le(hi, mx), g.le(mx, capv)), x.Pos())
		} else {
			g.safe("slice "+text, fmt.Sprintf("(and %s %s %s)", g.le(z, lo), g.le(lo, hi), g.le(hi, capv)), x.Pos())
		}
		return Val{T: x.Type(), S: g.define("sl", "Slice", fmt.Sprintf("(mk-slice (sl.ref %s) %s %s %s)", base.S, g.add("(sl.off "+base.S+")", lo), g.sub(hi, lo), g.sub(mx, lo)))}
	case *types.Pointer:
		arr := bt.Elem().Underlying().(*types.Array)
		n := g.idxLit(arr.Len())
		hi := n
		if x.High != nil {
			hi = g.toIdx(g.val(x.High))
		}
		g.safe("slice "+text, fmt.Sprintf("(and %s %s %s)", g.le(z, lo), g.le(lo, hi), g.le(hi, n)), x.Pos())
		if base.Addr != nil {
			g.note("slice of array held in a cell: abstracted")
			return g.havocVal(x.Type(), "sl")
		}
		return Val{T: x.Type(), S: g.define("sl", "Slice", fmt.Sprintf("(mk-slice %s %s %s %s)", base.S, lo, g.sub(hi, lo), g.sub(n, lo)))}
	}
	g.note("unsupported Slice on %s", x.X.Type())
	return g.havocVal(x.Type(), "sl")
}

func (g *Gen) substr(s, lo, hi string, t types.Type) Val {
	f := g.uf("s.sub", []string{"Str", g.idxSort(), g.idxSort()}, "Str")
	g.substrWhole()
	r := g.define("sub", "Str", fmt.Sprintf("(%s %s %s %s)", f, s, lo, hi))
	g.assume(fmt.Sprintf("(= (s.len %s) %s)", r, g.sub(hi, lo)))
	i := g.idxSort()
	g.assume(fmt.Sprintf("(forall ((i %s)) (! (=> (and %s %s) (= (s.at %s i) (s.at %s %s))) :pattern ((s.at %s i))))", i, g.le(g.idxLit(0), "i"), g.lt("i", g.sub(hi, lo)), r, s, g.add(lo, "i"), r))
	return Val{T: t, S: r}
}

func (g *Gen) makeSlice(x *ssa.MakeSlice) Val {
	et := x.Type().Underlying().(*types.Slice).Elem()
	ln := g.toIdx(g.val(x.Len))
	cp := g.toIdx(g.val(x.Cap))
	z := g.idxLit(0)
	g.safe("makeslice "+g.E.srcText(x), fmt.Sprintf("(and %s %s)", g.le(z, ln), g.le(ln, cp)), x.Pos())
	g.oblige("alloc", "makeslice-size "+g.E.srcText(x), g.le(cp, g.idxLit(maxLen)), x.Pos(), "")
	g.assume(g.le(cp, g.idxLit(maxLen)))
	r := g.allocRef(g.cur)
	h := g.arrHeap(et)
	arrSort := "(Array " + g.idxSort() + " " + g.sortOf(et) + ")"
	g.heapSet(g.cur, h, fmt.Sprintf("(store %s %s ((as const %s) %s))", g.heapGet(g.cur, h), r, arrSort, g.zero(et)))
	return Val{T: x.Type(), S: g.define("sl", "Slice", fmt.Sprintf("(mk-slice %s %s %s %s)", r, z, ln, cp))}
}

func (g *Gen) mapCard(m *types.Map) string {
	ks := g.sortOf(m.Key())
	return g.uf("map.card."+sanitize(ks), []string{"(Array " + ks + " Bool)"}, "Int")
}

func (g *Gen) makeMap(x *ssa.MakeMap) Val {
	mt := x.Type().Underlying().(*types.Map)
	dom, _ := g.mapHeaps(mt)
	r := g.allocRef(g.cur)
	ks := g.sortOf(mt.Key())
	empty := fmt.Sprintf("((as const (Array %s Bool)) false)", ks)
	g.heapSet(g.cur, dom, fmt.Sprintf("(store %s %s %s)", g.heapGet(g.cur, dom), r, empty))
	g.assume(fmt.Sprintf("(= (%s %s) 0)", g.mapCard(mt), empty))
	return Val{T: x.Type(), S: r}
}

func (g *Gen) mapUpdate(x *ssa.MapUpdate) {
	mt := x.Map.Type().Underlying().(*types.Map)
	m, k, v := g.val(x.Map), g.val(x.Key), g.val(x.Value)
	g.safe("nonnil-map "+g.E.srcText(x), "(not (= "+m.S+" 0))", x.Pos())
	if k.Addr != nil || v.Addr != nil {
		g.note("map update with symbolic address abstracted")
		dom, val := g.mapHeaps(mt)
		g.heapHavoc(g.cur, dom)
		g.heapHavoc(g.cur, val)
		return
	}
	g.mapStore(mt, m.S, k.S, v.S)
}

func (g *Gen) mapStore(mt *types.Map, m, k, v string) {
	dom, val := g.mapHeaps(mt)
	d0 := g.define("dom", "(Array "+g.sortOf(mt.Key())+" Bool)", fmt.Sprintf("(select %s %s)", g.heapGet(g.cur, dom), m))
	d1 := g.define("dom", "(Array "+g.sortOf(mt.Key())+" Bool)", fmt.Sprintf("(store %s %s true)", d0, k))
	card := g.mapCard(mt)
	g.assume(fmt.Sprintf("(= (%s %s) (+ (%s %s) (ite (select %s %s) 0 1)))", card, d1, card, d0, d0, k))
	g.assume(fmt.Sprintf("(>= (%s %s) 0)", card, d0))
	g.heapSet(g.cur, dom, fmt.Sprintf("(store %s %s %s)", g.heapGet(g.cur, dom), m, d1))
	cv := g.heapGet(g.cur, val)
	g.heapSet(g.cur, val, fmt.Sprintf("(store %s %s (store (select %s %s) %s %s))", cv, m, cv, m, k, v))
}

func (g *Gen) mapDelete(mt *types.Map, m, k string) {
	dom, _ := g.mapHeaps(mt)
	d0 := g.define("dom", "(Array "+g.sortOf(mt.Key())+" Bool)", fmt.Sprintf("(select %s %s)", g.heapGet(g.cur, dom), m))
	d1 := g.define("dom", "(Array "+g.sortOf(mt.Key())+" Bool)", fmt.Sprintf("(store %s %s false)", d0, k))
	card := g.mapCard(mt)
	g.assume(fmt.Sprintf("(= (%s %s) (- (%s %s) (ite (select %s %s) 1 0)))", card, d1, card, d0, d0, k))
	g.assume(fmt.Sprintf("(>= (%s %s) 0)", card, d1))
	// deleting from a nil map is a no-op
	g.heapSet(g.cur, dom, fmt.Sprintf("(ite (= %s 0) %s (store %s %s %s))", m, g.heapGet(g.cur, dom), g.heapGet(g.cur, dom), m, d1))
}

func (g *Gen) makeClosure(x *ssa.MakeClosure) Val {
	fn := x.Fn.(*ssa.Function)
	var binds []Val
	for _, b := range x.Bindings {
		binds = append(binds, g.val(b))
	}
	g.closures[x] = &closureInfo{fn: fn, binds: binds}
	for _, b := range binds {
		if b.Addr != nil && b.Addr.Kind == "cell" {
			// captured variable: stays a local cell unless the closure escapes
			_ = b
		}
	}
	return Val{T: x.Type(), S: g.funcConst(fn)}
}

func (g *Gen) selectInstr(x *ssa.Select) Val {
	tup := x.Type().(*types.Tuple)
	v := Val{T: x.Type()}
	for i := 0; i < tup.Len(); i++ {
		v.Tuple = append(v.Tuple, g.havocVal(tup.At(i).Type(), "select"))
	}
	lo := -1
	if x.Blocking {
		lo = 0
	}
	if g.mode == ModeInt {
		g.assume(fmt.Sprintf("(and (<= %s %s) (< %s %d))", bigStr(big.NewInt(int64(lo))), v.Tuple[0].S, v.Tuple[0].S, len(x.States)))
		// ghost queue of a channel (declared as ghost fields qlen/qitem): a chosen send case appends
		ql, okL := g.E.contracts.Ghosts["qlen"]
		qi, okI := g.E.contracts.Ghosts["qitem"]
		if okL && okI {
			hl, _, _, _ := g.ghostHeap(ql)
			hi, _, _, _ := g.ghostHeap(qi)
			for i, st := range x.States {
				if st.Dir != types.SendOnly {
					continue
				}
				ch, pay := g.val(st.Chan), g.val(st.Send)
				if pay.Addr != nil && pay.Addr.Kind == "cell" && len(pay.Addr.Path) == 0 {
					if _, isStruct := pay.Addr.ElemT.Underlying().(*types.Struct); isStruct {
						// materialise the local struct as a heap object for the receiver
						r := g.allocRef(g.cur)
						g.storeStruct(g.cur, pay.Addr.ElemT, r, g.heapGet(g.cur, pay.Addr.Heap))
						pay = Val{T: pay.T, S: r}
					}
				}
				if ch.Addr != nil {
					continue
				}
				cond := fmt.Sprintf("(= %s %d)", v.Tuple[0].S, i)
				curL, curI := g.heapGet(g.cur, hl), g.heapGet(g.cur, hi)
				n := g.define("qn", "Int", fmt.Sprintf("(select %s %s)", curL, ch.S))
				g.heapSet(g.cur, hl, fmt.Sprintf("(ite %s (store %s %s (+ %s 1)) %s)", cond, curL, ch.S, n, curL))
				if qc, ok := g.E.contracts.Ghosts["qcur"]; ok {
					hc, _, _, _ := g.ghostHeap(qc)
					curC := g.heapGet(g.cur, hc)
					g.heapSet(g.cur, hc, fmt.Sprintf("(ite %s (store %s %s (+ (select %s %s) 1)) %s)", cond, curC, ch.S, curC, ch.S, curC))
				}
				if pay.Addr == nil && g.sortOf(pay.T) == "Int" {
					g.heapSet(g.cur, hi, fmt.Sprintf("(ite %s (store %s %s (store (select %s %s) %s %s)) %s)", cond, curI, ch.S, curI, ch.S, n, pay.S, curI))
				}
			}
		}
	}
	return v
}

type pathStep struct {
	T types.Type // struct type
	I int
}

type iterInfo struct {
	mt      *types.Map
	m       string
	dom0    string
	visited string // heap var
	count   string // heap var: number of entries yielded so far
	str     bool
}

func (g *Gen) rangeInstr(x *ssa.Range) Val {
	if mt, ok := x.X.Type().Underlying().(*types.Map); ok {
		m := g.val(x.X)
		dom, _ := g.mapHeaps(mt)
		ks := g.sortOf(mt.Key())
		g.nIter++
		vis := fmt.Sprintf("iter.%d.visited", g.nIter)
		g.heapDecl(vis, "(Array "+ks+" Bool)")
		g.cur.store[vis] = fmt.Sprintf("((as const (Array %s Bool)) false)", ks)
		d0 := g.define("dom0", "(Array "+ks+" Bool)", fmt.Sprintf("(ite (= %s 0) ((as const (Array %s Bool)) false) (select %s %s))", m.S, ks, g.heapGet(g.cur, dom), m.S))
		if g.mode == ModeInt {
			// ranging over a nil map: the empty domain has no entries
			g.assume(fmt.Sprintf("(= (%s ((as const (Array %s Bool)) false)) 0)", g.mapCard(mt), ks))
		}
		cnt := fmt.Sprintf("iter.%d.count", g.nIter)
		g.heapDecl(cnt, "Int")
		g.cur.store[cnt] = "0"
		g.iters[x] = &iterInfo{mt: mt, m: m.S, dom0: d0, visited: vis, count: cnt}
		g.iterOrd = append(g.iterOrd, x)
		return Val{T: x.Type(), S: "0"}
	}
	g.note("range over string abstracted")
	g.iters[x] = &iterInfo{str: true}
	return Val{T: x.Type(), S: "0"}
}

func (g *Gen) nextInstr(x *ssa.Next) Val {
	tup := x.Type().(*types.Tuple)
	it := g.iters[x.Iter.(*ssa.Range)]
	if it == nil || it.str {
		v := Val{T: x.Type()}
		for i := 0; i < tup.Len(); i++ {
			v.Tuple = append(v.Tuple, g.havocVal(tup.At(i).Type(), "next"))
		}
		return v
	}
	ok := g.fresh("next.ok", "Bool")
	k := g.havocVal(it.mt.Key(), "next.k")
	dom, val := g.mapHeaps(it.mt)
	vis := g.heapGet(g.cur, it.visited)
	ks := g.sortOf(it.mt.Key())
	g.assume(fmt.Sprintf("(=> %s (and (select %s %s) (not (select %s %s)) (select (select %s %s) %s)))", ok, it.dom0, k.S, vis, k.S, g.heapGet(g.cur, dom), it.m, k.S))
	g.assume(fmt.Sprintf("(=> (not %s) (forall ((k %s)) (! (=> (and (select %s k) (select (select %s %s) k)) (select %s k)) :pattern ((select %s k)))))", ok, ks, it.dom0, g.heapGet(g.cur, dom), it.m, vis, vis))
	v := g.define("next.v", g.sortOf(it.mt.Elem()), fmt.Sprintf("(select (select %s %s) %s)", g.heapGet(g.cur, val), it.m, k.S))
	g.assume(g.rangeOf(it.mt.Elem(), v, g.cur))
	g.heapSet(g.cur, it.visited, fmt.Sprintf("(ite %s (store %s %s true) %s)", ok, vis, k.S, vis))
	if it.count != "" {
		c := g.heapGet(g.cur, it.count)
		g.heapSet(g.cur, it.count, fmt.Sprintf("(ite %s (+ %s 1) %s)", ok, c, c))
		g.assume(fmt.Sprintf("(>= %s 0)", c))
		if g.mode == ModeInt {
			// every yielded entry is a distinct key of the map as it was when the loop started
			card := g.mapCard(it.mt)
			g.assume(fmt.Sprintf("(and (=> %s (< %s (%s %s))) (<= %s (%s %s)) (<= 0 (%s %s)))", ok, c, card, it.dom0, c, card, it.dom0, card, it.dom0))
			// when the iteration ends and no key the map had at the start has been deleted meanwhile, every one of
			// them has been yielded exactly once
			// (keys are values of the key type: the quantifier is guarded the way contract quantifiers are)
			g.assume(fmt.Sprintf("(=> (and (not %s) (forall ((k %s)) (=> (and %s (select %s k)) (select (select %s %s) k)))) (= %s (%s %s)))", ok, ks, g.rangeOf(it.mt.Key(), "k", g.cur), it.dom0, g.heapGet(g.cur, dom), it.m, c, card, it.dom0))
		}
	}
	return Val{T: x.Type(), Tuple: []Val{{T: types.Typ[types.Bool], S: ok}, k, {T: it.mt.Elem(), S: v}}}
}
