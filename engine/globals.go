package main

// Initial values of package-level variables, read mechanically out of the package initialiser
// (go/ssa's init function): struct globals built from constant composite literals and map globals
// with constant keys. Only globals that are never written outside init use these values.

import (
	"fmt"
	"go/types"
	"sort"
	"strings"

	"golang.org/x/tools/go/ssa"
)

type constStruct struct {
	t      types.Type
	fields map[int]*ssa.Const
}

type globalInit struct {
	strct   *constStruct            // struct-typed global
	scalar  *ssa.Const              // scalar global
	mapKeys []*ssa.Const            // map-typed global: constant keys ...
	mapVals []interface{}           // ... with *ssa.Const or *constStruct or *ssa.Global (copy of a struct global) values
	isMap   bool
	mapType *types.Map
	nonNil  bool // interface-typed global initialised with a freshly made (non-nil) error
}

func (E *Engine) scanInits() {
	E.globalInit = map[*ssa.Global]*globalInit{}
	for _, sp := range E.spkgs {
		if sp == nil {
			continue
		}
		init := sp.Func("init")
		if init == nil {
			continue
		}
		for _, b := range init.Blocks {
			E.scanInitBlock(b)
		}
	}
}

func (E *Engine) scanInitBlock(b *ssa.BasicBlock) {
	locals := map[*ssa.Alloc]*constStruct{}
	fieldOf := map[*ssa.FieldAddr]*ssa.Alloc{}
	loaded := map[ssa.Value]interface{}{} // value -> *constStruct | *ssa.Global
	maps := map[*ssa.MakeMap]*globalInit{}
	globalField := map[*ssa.FieldAddr]*ssa.Global{}
	for _, in := range b.Instrs {
		switch x := in.(type) {
		case *ssa.Alloc:
			if _, ok := x.Type().Underlying().(*types.Pointer).Elem().Underlying().(*types.Struct); ok {
				locals[x] = &constStruct{t: x.Type().Underlying().(*types.Pointer).Elem(), fields: map[int]*ssa.Const{}}
			}
		case *ssa.FieldAddr:
			if a, ok := x.X.(*ssa.Alloc); ok && locals[a] != nil {
				fieldOf[x] = a
			}
			if gl, ok := x.X.(*ssa.Global); ok {
				globalField[x] = gl
			}
		case *ssa.UnOp:
			if a, ok := x.X.(*ssa.Alloc); ok && locals[a] != nil {
				cp := &constStruct{t: locals[a].t, fields: map[int]*ssa.Const{}}
				for k, v := range locals[a].fields {
					cp.fields[k] = v
				}
				loaded[x] = cp
			}
			if gl, ok := x.X.(*ssa.Global); ok {
				loaded[x] = gl
			}
		case *ssa.MakeMap:
			maps[x] = &globalInit{isMap: true, mapType: x.Type().Underlying().(*types.Map)}
		case *ssa.MapUpdate:
			mm, ok := x.Map.(*ssa.MakeMap)
			if !ok || maps[mm] == nil {
				continue
			}
			k, ok := x.Key.(*ssa.Const)
			if !ok {
				// struct-valued keys (V5CodesToV3) are not modelled
				maps[mm].mapKeys = nil
				maps[mm].isMap = false
				continue
			}
			var v interface{}
			if c, ok := x.Value.(*ssa.Const); ok {
				v = c
			} else if l, ok := loaded[x.Value]; ok {
				v = l
			} else {
				continue
			}
			maps[mm].mapKeys = append(maps[mm].mapKeys, k)
			maps[mm].mapVals = append(maps[mm].mapVals, v)
		case *ssa.Store:
			if fa, ok := x.Addr.(*ssa.FieldAddr); ok {
				if gl := globalField[fa]; gl != nil {
					// direct initialisation of a struct global, field by field
					elem := gl.Type().(*types.Pointer).Elem()
					gi := E.globalInit[gl]
					if gi == nil || gi.strct == nil {
						gi = &globalInit{strct: &constStruct{t: elem, fields: map[int]*ssa.Const{}}}
						E.globalInit[gl] = gi
					}
					if c, ok := x.Val.(*ssa.Const); ok {
						gi.strct.fields[fa.Field] = c
					} else {
						delete(gi.strct.fields, fa.Field)
					}
					continue
				}
				if a := fieldOf[fa]; a != nil {
					if c, ok := x.Val.(*ssa.Const); ok {
						locals[a].fields[fa.Field] = c
					} else {
						delete(locals[a].fields, fa.Field)
					}
				}
				continue
			}
			gl, ok := x.Addr.(*ssa.Global)
			if !ok {
				continue
			}
			switch v := x.Val.(type) {
			case *ssa.Const:
				E.globalInit[gl] = &globalInit{scalar: v}
			case *ssa.MakeMap:
				if maps[v] != nil && maps[v].isMap {
					E.globalInit[gl] = maps[v]
				}
			case *ssa.Call:
				// var ErrX = errors.New(...) / fmt.Errorf(...): a non-nil error value
				if f, ok := v.Call.Value.(*ssa.Function); ok && (funcKey(f) == "errors.New" || funcKey(f) == "fmt.Errorf") {
					E.globalInit[gl] = &globalInit{nonNil: true}
				}
			default:
				if l, ok := loaded[x.Val]; ok {
					if cs, ok := l.(*constStruct); ok {
						E.globalInit[gl] = &globalInit{strct: cs}
					} else if og, ok := l.(*ssa.Global); ok && E.globalInit[og] != nil {
						E.globalInit[gl] = E.globalInit[og]
					}
				}
			}
		}
	}
}

// constStructFacts: equalities between the fields of struct term s and the recorded constants.
func (g *Gen) constStructFacts(cs *constStruct, s string) []string {
	var out []string
	st := cs.t.Underlying().(*types.Struct)
	sortN := g.structSort(cs.t)
	idx := make([]int, 0, len(cs.fields))
	for i := range cs.fields {
		idx = append(idx, i)
	}
	sort.Ints(idx)
	for _, i := range idx {
		c := cs.fields[i]
		f := st.Field(i)
		switch f.Type().Underlying().(type) {
		case *types.Basic:
			cv := g.constVal(c)
			out = append(out, fmt.Sprintf("(= (%s.%s %s) %s)", sortN, sanitize(f.Name()), s, cv.S))
		}
	}
	return out
}

// globalInitFacts emits what is known about an immutable global's value (called once, when the
// global's heap constant is declared).
func (g *Gen) globalInitFacts(gl *ssa.Global, heap string) {
	gi := g.E.globalInit[gl]
	if gi == nil {
		return
	}
	term := "|" + heap + "@0|"
	switch {
	case gi.nonNil:
		g.emit("(assert (not (= %s iface.nil))) ; %s is initialised with a non-nil error", term, gl.Name())
	case gi.strct != nil:
		for _, f := range g.constStructFacts(gi.strct, term) {
			g.emit("(assert %s) ; initial value of %s", f, gl.Name())
		}
	case gi.scalar != nil:
		g.emit("(assert (= %s %s)) ; initial value of %s", term, g.constVal(gi.scalar).S, gl.Name())
	case gi.isMap && len(gi.mapKeys) > 0 && len(gi.mapKeys) <= 64:
		// the map object: a fixed reference with exactly these keys
		dom, val := g.mapHeaps(gi.mapType)
		g.emit("(assert (> %s 0))", term)
		ks := g.sortOf(gi.mapType.Key())
		var keyTerms []string
		for i, k := range gi.mapKeys {
			kt := g.constVal(k).S
			keyTerms = append(keyTerms, kt)
			g.emit("(assert (select (select |%s@0| %s) %s))", dom, term, kt)
			vt := fmt.Sprintf("(select (select |%s@0| %s) %s)", val, term, kt)
			switch v := gi.mapVals[i].(type) {
			case *ssa.Const:
				g.emit("(assert (= %s %s))", vt, g.constVal(v).S)
			case *constStruct:
				for _, f := range g.constStructFacts(v, vt) {
					g.emit("(assert %s)", f)
				}
			case *ssa.Global:
				if og := g.E.globalInit[v]; og != nil && og.strct != nil {
					for _, f := range g.constStructFacts(og.strct, vt) {
						g.emit("(assert %s)", f)
					}
				}
			}
		}
		var neq []string
		for _, kt := range keyTerms {
			neq = append(neq, "(= k "+kt+")")
		}
		g.emit("(assert (forall ((k %s)) (! (=> (select (select |%s@0| %s) k) (or %s false)) :pattern ((select (select |%s@0| %s) k)))))", ks, dom, term, joinS(neq), dom, term)
	}
}

func joinS(xs []string) string {
	s := ""
	for i, x := range xs {
		if i > 0 {
			s += " "
		}
		s += x
	}
	return s
}

// allFieldHeap resolves the location all(Type.field) / all(pkg.Type.field) to its heap variable.
func (g *Gen) allFieldHeap(f *EField) (string, bool) {
	var tname string
	switch x := f.X.(type) {
	case *EIdent:
		tname = x.Name
	case *EField:
		if id, ok := x.X.(*EIdent); ok {
			tname = id.Name + "." + x.Name
		}
	}
	if tname == "" {
		return "", false
	}
	var t types.Type
	func() {
		defer func() { recover() }()
		t, _ = g.specType(tname)
	}()
	if t == nil {
		return "", false
	}
	var pkg *types.Package
	if n, ok := derefNamed(t); ok {
		pkg = n.Obj().Pkg()
	}
	obj, path, _ := types.LookupFieldOrMethod(t, true, pkg, f.Name)
	if obj == nil || len(path) != 1 {
		return "", false
	}
	if _, isStruct := t.Underlying().(*types.Struct).Field(path[0]).Type().Underlying().(*types.Struct); isStruct {
		return "", false
	}
	return g.fieldHeap(t, path[0]), true
}

// staticType resolves the Go type of a contract expression of the shape param(.field)* in the
// contract of function `key`, without evaluating it (used to name the heap variables a callee's
// modifies clause can touch).
func (g *Gen) staticType(key string, e Expr) types.Type {
	switch x := e.(type) {
	case *EIdent:
		f := g.E.funcs[key]
		if f != nil {
			for _, p := range f.Params {
				if p.Name() == x.Name {
					return p.Type()
				}
			}
			return nil
		}
		// external function: look the signature up through any call site is not possible here
		return nil
	case *EField:
		bt := g.staticType(key, x.X)
		if bt == nil {
			return nil
		}
		var pkg *types.Package
		if n, ok := derefNamed(bt); ok {
			pkg = n.Obj().Pkg()
		}
		obj, _, _ := types.LookupFieldOrMethod(bt, true, pkg, x.Name)
		if v, ok := obj.(*types.Var); ok {
			return v.Type()
		}
	}
	return nil
}

// initOnlyFields: struct fields that the loaded code only ever writes on objects it has just
// allocated in the same function (constructors, composite literals). Such a field of an object that
// already exists cannot change during any call into the loaded code, so a call with an unknown or
// coarse (`modifies=all`) effect keeps it. (Assumption recorded in evidence: code outside the loaded
// packages does not reassign these fields while a function under contract runs.)
func (E *Engine) initOnlyFields() map[string]bool {
	if E.initOnly != nil {
		return E.initOnly
	}
	written := map[string]bool{} // heap-name suffix "pkg.Type.field" written on a non-fresh object
	seenField := map[string]bool{}
	var rootOf func(v ssa.Value) ssa.Value
	rootOf = func(v ssa.Value) ssa.Value {
		for {
			if fa, ok := v.(*ssa.FieldAddr); ok {
				v = fa.X
				continue
			}
			return v
		}
	}
	for _, f := range E.funcs {
		for _, b := range f.Blocks {
			for _, in := range b.Instrs {
				var addr ssa.Value
				switch x := in.(type) {
				case *ssa.Store:
					addr = x.Addr
				case *ssa.Call:
					// &obj.f passed to a call (atomic.Store..., or anything else): counts as a write
					for _, a := range x.Call.Args {
						if fa, ok := a.(*ssa.FieldAddr); ok {
							st := fa.X.Type().Underlying().(*types.Pointer).Elem()
							name := typeID(st) + "." + sanitize(st.Underlying().(*types.Struct).Field(fa.Field).Name())
							seenField[name] = true
							if _, fresh := rootOf(fa).(*ssa.Alloc); !fresh {
								written[name] = true
							}
						}
					}
					continue
				default:
					continue
				}
				fa, ok := addr.(*ssa.FieldAddr)
				if !ok {
					continue
				}
				st := fa.X.Type().Underlying().(*types.Pointer).Elem()
				fld := st.Underlying().(*types.Struct).Field(fa.Field)
				if _, isStruct := fld.Type().Underlying().(*types.Struct); isStruct {
					// whole embedded struct assigned: every leaf below counts as written
					written[typeID(st)+"."+sanitize(fld.Name())+".*"] = true
					continue
				}
				name := typeID(st) + "." + sanitize(fld.Name())
				seenField[name] = true
				if _, fresh := rootOf(fa).(*ssa.Alloc); !fresh {
					written[name] = true
				}
			}
		}
	}
	E.initOnly = map[string]bool{}
	E.writtenFields = written
	return E.initOnly
}

// fieldIsInitOnly reports whether heap variable F.<type>.<field> is never written on pre-existing objects.
func (E *Engine) fieldIsInitOnly(heap string) bool {
	E.initOnlyFields()
	if !strings.HasPrefix(heap, "F.") {
		return false
	}
	name := strings.TrimPrefix(heap, "F.")
	if v, ok := E.initOnly[name]; ok {
		return v
	}
	if E.contracts.Frozen[name] {
		E.initOnly[name] = true
		return true
	}
	res := !E.writtenFields[name]
	if i := strings.LastIndex(name, "."); res && i > 0 {
		res = !E.embeddedWholeWrites(name[:i])
	}
	E.initOnly[name] = res
	return res
}

// embeddedWholeWrites: some struct has an embedded field of type tname that is assigned as a whole.
func (E *Engine) embeddedWholeWrites(tname string) bool {
	for _, p := range E.pkgs {
		sc := p.Types.Scope()
		for _, n := range sc.Names() {
			tn, ok := sc.Lookup(n).(*types.TypeName)
			if !ok {
				continue
			}
			st, ok := tn.Type().Underlying().(*types.Struct)
			if !ok {
				continue
			}
			for i := 0; i < st.NumFields(); i++ {
				if typeID(st.Field(i).Type()) == tname && E.writtenFields[typeID(tn.Type())+"."+sanitize(st.Field(i).Name())+".*"] {
					return true
				}
			}
		}
	}
	return false
}
