package main

import (
	"fmt"
	"go/ast"
	"go/token"
	"go/types"
	"os"
	"path/filepath"
	"sort"
	"strings"

	"golang.org/x/tools/go/packages"
	"golang.org/x/tools/go/ssa"
	"golang.org/x/tools/go/ssa/ssautil"
)

type Engine struct {
	prog      *ssa.Program
	pkgs      []*packages.Package
	spkgs     []*ssa.Package
	fset      *token.FileSet
	contracts *Contracts
	funcs     map[string]*ssa.Function
	mutGlobal map[*ssa.Global]bool
	globalInit map[*ssa.Global]*globalInit
	coverReturns bool // also check that every return is reachable under the contract (thorough tier)
	masks        map[string]Expr // open known findings of the property being checked that carry a mask
	initOnly      map[string]bool
	writtenFields map[string]bool
	srcCache  map[string][]byte
	posNodes  map[*ssa.Function]map[token.Pos]ast.Node
	fatals    []string
	axiomsUsed map[string]bool
	repo      string
}

func (E *Engine) fatalf(f string, a ...interface{}) {
	s := fmt.Sprintf(f, a...)
	for _, x := range E.fatals {
		if x == s {
			return
		}
	}
	E.fatals = append(E.fatals, s)
}

func LoadEngine(repo string, patterns []string, contractFiles []string) (*Engine, error) {
	cfg := &packages.Config{Mode: packages.LoadSyntax, Dir: repo, BuildFlags: []string{"-tags=verif"}, Tests: false}
	pkgs, err := packages.Load(cfg, patterns...)
	if err != nil {
		return nil, err
	}
	for _, p := range pkgs {
		for _, e := range p.Errors {
			return nil, fmt.Errorf("package %s: %v", p.PkgPath, e)
		}
	}
	prog, spkgs := ssautil.Packages(pkgs, ssa.GlobalDebug|ssa.BareInits)
	prog.Build()
	E := &Engine{prog: prog, pkgs: pkgs, spkgs: spkgs, contracts: NewContracts(), funcs: map[string]*ssa.Function{},
		mutGlobal: map[*ssa.Global]bool{}, srcCache: map[string][]byte{}, posNodes: map[*ssa.Function]map[token.Pos]ast.Node{}, repo: repo}
	if len(pkgs) > 0 {
		E.fset = pkgs[0].Fset
	}
	for _, sp := range spkgs {
		if sp == nil {
			continue
		}
		for _, m := range sp.Members {
			switch x := m.(type) {
			case *ssa.Function:
				E.addFunc(x)
			case *ssa.Type:
				for _, recvT := range []types.Type{types.NewPointer(x.Type()), x.Type()} {
					if _, isIface := x.Type().Underlying().(*types.Interface); isIface {
						break
					}
					ms := prog.MethodSets.MethodSet(recvT)
					for i := 0; i < ms.Len(); i++ {
						if f := prog.MethodValue(ms.At(i)); f != nil && f.Synthetic == "" {
							E.addFunc(f)
						}
					}
				}
			}
		}
	}
	// contracts: trusted library contracts + per-package contract files in the repo
	for _, cf := range contractFiles {
		if err := E.contracts.LoadFile(cf, "trusted"); err != nil {
			return nil, err
		}
	}
	// contract files of the loaded packages and of every package they import (callee contracts)
	seenPkg := map[string]bool{}
	var walk func(p *packages.Package) error
	walk = func(p *packages.Package) error {
		if seenPkg[p.PkgPath] {
			return nil
		}
		seenPkg[p.PkgPath] = true
		for _, f := range p.GoFiles {
			if strings.HasSuffix(f, "zz_verif_contracts.go") {
				if err := E.contracts.LoadFile(f, "repo"); err != nil {
					return err
				}
			}
		}
		for _, imp := range p.Imports {
			if err := walk(imp); err != nil {
				return err
			}
		}
		return nil
	}
	for _, p := range pkgs {
		if err := walk(p); err != nil {
			return nil, err
		}
	}
	if len(E.contracts.Errs) > 0 {
		return nil, fmt.Errorf("contract errors:\n%s", strings.Join(E.contracts.Errs, "\n"))
	}
	E.scanGlobals()
	E.scanInits()
	return E, nil
}

func (E *Engine) addFunc(f *ssa.Function) {
	E.funcs[funcKey(f)] = f
	for _, a := range f.AnonFuncs {
		E.addFunc(a)
	}
}

// scanGlobals marks globals that are written (or whose address escapes) outside package init.
func (E *Engine) scanGlobals() {
	for _, f := range E.funcs {
		if f.Name() == "init" || strings.HasPrefix(f.Name(), "init#") {
			continue
		}
		for _, b := range f.Blocks {
			for _, in := range b.Instrs {
				for _, op := range in.Operands(nil) {
					if op == nil || *op == nil {
						continue
					}
					gl, ok := (*op).(*ssa.Global)
					if !ok {
						continue
					}
					if u, ok := in.(*ssa.UnOp); ok && u.Op == token.MUL {
						continue // plain load
					}
					if _, ok := in.(*ssa.DebugRef); ok {
						continue
					}
					if fa, ok := in.(*ssa.FieldAddr); ok && readOnlyAddr(fa) {
						continue // &g.f used only for loads
					}
					E.mutGlobal[gl] = true
				}
			}
		}
	}
}

// readOnlyAddr: every use of the address is a load (possibly through further field addresses).
func readOnlyAddr(v ssa.Value) bool {
	refs := v.Referrers()
	if refs == nil {
		return false
	}
	for _, r := range *refs {
		switch x := r.(type) {
		case *ssa.DebugRef:
		case *ssa.UnOp:
			if x.Op != token.MUL {
				return false
			}
		case *ssa.FieldAddr:
			if !readOnlyAddr(x) {
				return false
			}
		default:
			return false
		}
	}
	return true
}

func (E *Engine) immutableGlobal(g *ssa.Global) bool {
	// only globals of loaded packages were scanned; others are treated as mutable
	for _, sp := range E.spkgs {
		if sp == g.Pkg {
			return !E.mutGlobal[g]
		}
	}
	return false
}

var effectFreePrefixes = []string{"slog.", "fmt.Sprint", "fmt.Errorf", "errors.New", "strconv.", "strings.", "utf8.", "bytes.Equal", "bytes.Index", "bytes.Contains", "time.Now", "time.Time.", "time.Duration."}

func (E *Engine) effectFree(key string) bool {
	for _, p := range effectFreePrefixes {
		if strings.HasPrefix(key, p) {
			return true
		}
	}
	return false
}

func (E *Engine) specDefined(name string, mode Mode) bool {
	m := "int"
	if mode == ModeBV {
		m = "bv"
	}
	for _, k := range []string{"any", m} {
		for _, l := range E.contracts.SMT[k] {
			if strings.Contains(l, "(define-fun "+name+" ") || strings.Contains(l, "(declare-fun "+name+" ") || strings.Contains(l, "(define-fun-rec "+name+" ") {
				return true
			}
		}
	}
	return false
}

// fieldHeapsNamed: heap variables for every struct field called `name` in the loaded packages.
func (E *Engine) fieldHeapsNamed(g *Gen, name string) []string {
	var out []string
	seen := map[string]bool{}
	for _, p := range E.pkgs {
		sc := p.Types.Scope()
		for _, n := range sc.Names() {
			tn, ok := sc.Lookup(n).(*types.TypeName)
			if !ok {
				continue
			}
			st, ok := tn.Type().Underlying().(*types.Struct)
			if !ok {
				continue
			}
			for i := 0; i < st.NumFields(); i++ {
				if st.Field(i).Name() == name {
					if _, isStruct := st.Field(i).Type().Underlying().(*types.Struct); isStruct {
						var hs []string
						g.leafHeaps(st.Field(i).Type(), &hs)
						for _, h := range hs {
							if !seen[h] {
								seen[h] = true
								out = append(out, h)
							}
						}
						continue
					}
					h := g.fieldHeap(tn.Type(), i)
					if !seen[h] {
						seen[h] = true
						out = append(out, h)
					}
				}
			}
		}
	}
	sort.Strings(out)
	return out
}

func (E *Engine) src(file string) []byte {
	if b, ok := E.srcCache[file]; ok {
		return b
	}
	b, _ := os.ReadFile(file)
	E.srcCache[file] = b
	return b
}

func (E *Engine) nodeText(n ast.Node) string {
	p, e := E.fset.Position(n.Pos()), E.fset.Position(n.End())
	b := E.src(p.Filename)
	if p.Offset < 0 || e.Offset > len(b) || p.Offset >= e.Offset {
		return ""
	}
	s := strings.Join(strings.Fields(string(b[p.Offset:e.Offset])), " ")
	if len(s) > 70 {
		s = s[:70] + "…"
	}
	return s
}

func (E *Engine) indexNodes(fn *ssa.Function) map[token.Pos]ast.Node {
	if m, ok := E.posNodes[fn]; ok {
		return m
	}
	m := map[token.Pos]ast.Node{}
	root := fn
	for root.Parent() != nil {
		root = root.Parent()
	}
	if syn := root.Syntax(); syn != nil {
		ast.Inspect(syn, func(n ast.Node) bool {
			switch x := n.(type) {
			case *ast.IndexExpr:
				m[x.Lbrack] = x
			case *ast.SliceExpr:
				m[x.Lbrack] = x
			case *ast.SelectorExpr:
				m[x.Sel.Pos()] = x
			case *ast.CallExpr:
				m[x.Lparen] = x
			case *ast.BinaryExpr:
				m[x.OpPos] = x
			case *ast.StarExpr:
				m[x.Star] = x
			case *ast.UnaryExpr:
				m[x.OpPos] = x
			case *ast.TypeAssertExpr:
				m[x.Lparen] = x
			case *ast.IncDecStmt:
				m[x.TokPos] = x
			case *ast.AssignStmt:
				if _, ok := m[x.TokPos]; !ok {
					m[x.TokPos] = x
				}
			case *ast.CompositeLit:
				m[x.Lbrace] = x
			}
			return true
		})
	}
	E.posNodes[fn] = m
	return m
}

// srcText gives the source text of the expression an instruction comes from (for obligation names).
func (E *Engine) srcText(in ssa.Instruction) string {
	fn := in.Parent()
	if fn == nil || !in.Pos().IsValid() {
		return ""
	}
	if n, ok := E.indexNodes(fn)[in.Pos()]; ok {
		return E.nodeText(n)
	}
	return ""
}

func (E *Engine) relPath(p string) string {
	if r, err := filepath.Rel(E.repo, p); err == nil {
		return r
	}
	return p
}
