package main

import (
	"fmt"
	"go/token"
	"go/types"
	"strings"

	"golang.org/x/tools/go/ssa"
)

type closureInfo struct {
	fn    *ssa.Function
	binds []Val
}

// funcKey gives the contract key of a function: pkgname.[Recv.]Name
func funcKey(f *ssa.Function) string {
	name := f.Name()
	pkg := ""
	if f.Pkg != nil {
		pkg = f.Pkg.Pkg.Name()
	} else if f.Object() != nil && f.Object().Pkg() != nil {
		pkg = f.Object().Pkg().Name()
	}
	if f.Parent() != nil {
		return funcKey(f.Parent()) + "$" + strings.TrimPrefix(name, f.Parent().Name()+"$")
	}
	if recv := f.Signature.Recv(); recv != nil {
		if n, ok := derefNamed(recv.Type()); ok {
			if n.Obj().Pkg() != nil {
				pkg = n.Obj().Pkg().Name()
			}
			return pkg + "." + n.Obj().Name() + "." + name
		}
	}
	return pkg + "." + name
}

func methodKey(recv types.Type, name string) string {
	if n, ok := derefNamed(recv); ok {
		pkg := ""
		if n.Obj().Pkg() != nil {
			pkg = n.Obj().Pkg().Name() + "."
		}
		return pkg + n.Obj().Name() + "." + name
	}
	return typeID(recv) + "." + name
}

func (g *Gen) call(in ssa.Instruction, c *ssa.CallCommon, rt types.Type) Val {
	pos := in.Pos()
	text := g.E.srcText(in)
	if rt == nil {
		rt = c.Signature().Results()
		if c.Signature().Results().Len() == 1 {
			rt = c.Signature().Results().At(0).Type()
		}
	}
	// builtins
	if b, ok := c.Value.(*ssa.Builtin); ok {
		return g.builtin(b, c, rt, pos, text)
	}
	var args []Val
	var key string
	var sig *types.Signature
	var names []string
	var callee *ssa.Function
	if c.IsInvoke() {
		recv := g.val(c.Value)
		args = append(args, recv)
		key = methodKey(c.Value.Type(), c.Method.Name())
		sig = c.Method.Type().(*types.Signature)
		names = append(names, "self")
		g.safe("nonnil-iface "+text, "(not (= "+recv.S+" iface.nil))", pos)
	} else {
		switch f := c.Value.(type) {
		case *ssa.Function:
			callee = f
		case *ssa.MakeClosure:
			callee = f.Fn.(*ssa.Function)
		}
		if callee != nil {
			key = funcKey(callee)
			sig = callee.Signature
			if sig.Recv() != nil {
				n := sig.Recv().Name()
				if n == "" || n == "_" {
					n = "self"
				}
				names = append(names, n)
			}
		} else {
			sig = c.Signature()
			key = ""
			// a value of a named function type: the contract attached to the type name, if any
			if n, ok := types.Unalias(c.Value.Type()).(*types.Named); ok && n.Obj().Pkg() != nil {
				if k := n.Obj().Pkg().Name() + "." + n.Obj().Name(); g.E.contracts.Funcs[k] != nil {
					key = k
				}
			}
		}
	}
	for _, a := range c.Args {
		args = append(args, g.val(a))
	}
	for i := 0; i < sig.Params().Len(); i++ {
		n := sig.Params().At(i).Name()
		if n == "" || n == "_" {
			n = fmt.Sprintf("p%d", i)
		}
		names = append(names, n)
	}
	// closure called directly: inline it when asked to, or when it is a local literal
	if mc, ok := c.Value.(*ssa.MakeClosure); ok {
		if ci := g.closures[mc]; ci != nil && len(ci.fn.Blocks) > 0 && (g.E.contracts.Funcs[key] == nil || g.E.contracts.Funcs[key].Opts["inline"] == "true") {
			return g.inlineCall(ci.fn, ci.binds, args, rt, pos)
		}
	}
	// assertions the enclosing function's contract attaches to calls of this callee (callsite clauses),
	// evaluated in the caller's scope with source-variable names
	if g.fc != nil && key != "" {
		for i, cs := range g.fc.Callsites {
			if cs.Callee != key || cs.E == nil {
				continue
			}
			blk := in.Block()
			at := -1 // index of the call in its block: names denote the values the variables have just before it
			for k, bi := range blk.Instrs {
				if bi == in {
					at = k
				}
			}
			if _, isDefer := in.(*ssa.Defer); isDefer {
				at = -1 // a deferred call runs at the function's exit, not where it is registered
			}
			env := g.fnEnv(g.cur, nil)
			g.lookupPos = pos
			env.lookup = func(name string) (Val, bool) {
				if v, ok := g.lookupVar(name, blk, at, g.cur); ok {
					return v, true
				}
				if g.outerLookup != nil {
					return g.outerLookup(name, g.cur)
				}
				return Val{}, false
			}
			if g.inlineDepth == 0 {
				// a parameter the function has reassigned: its name denotes the current value (entry value: name0)
				for name := range g.params {
					if strings.HasSuffix(name, "0") {
						if _, isParam := g.params[strings.TrimSuffix(name, "0")]; isParam {
							continue
						}
					}
					if len(g.debugVals[name]) == 0 {
						continue
					}
					if v, ok := g.lookupVar(name, blk, at, g.cur); ok {
						env.vars[name] = v
					}
				}
			}
			for n, v := range g.params {
				// captured variables of a closure are cells: their name denotes the current value
				if v.Addr != nil && v.Addr.Kind == "cell" && g.freeVarNames[n] {
					env.vars[n] = g.loadQuiet(g.cur, v, v.Addr.ElemT)
				}
			}
			for ai, av := range args {
				env.vars[fmt.Sprintf("arg%d", ai)] = av // the call's actual arguments (arg0 is the receiver of a method call)
			}
			s, err := g.evalBool(env, cs.E)
			if err != nil {
				g.E.fatalf("%s:%d: %v", cs.File, cs.Line, err)
				continue
			}
			label := cs.Label
			if label == "" {
				label = fmt.Sprintf("%s-%d", key, i+1)
			}
			g.oblige("assert", label+" @ "+text, s, pos, cs.Text)
			g.assume(s)
		}
	}
	if v, ok := g.atomicCall(key, args, rt, pos, text); ok {
		return v
	}
	if key == "errors.As" && len(c.Args) == 2 {
		// errors.As(err, &target): the result is unconstrained; when it is true the target holds some value
		res := g.havocVal(rt, "ret.errors.As")
		if _, hasSpec := g.E.contracts.Specs["errAsCode"]; hasSpec {
			// the answer is a function of the error (spec/stdlib.contracts: errAsCode), and a nil error has no chain
			if e, err := ParseExpr("result == errAsCode(err) && (err == nil ==> !result)"); err == nil {
				env := &Env{vars: map[string]Val{"err": args[0], "result": res}, st: g.cur, old: g.cur, pkg: g.pkgOfKey(g.key)}
				if s, err := g.evalBool(env, e); err == nil {
					g.assume(s)
				}
			}
		}
		if mi, ok := c.Args[1].(*ssa.MakeInterface); ok {
			if tv, ok := g.vals[mi.X]; ok && tv.Addr == nil {
				if p, ok := mi.X.Type().Underlying().(*types.Pointer); ok {
					if _, isStruct := p.Elem().Underlying().(*types.Struct); isStruct {
						g.havocStructAt(p.Elem(), tv.S) // target struct on the heap: any value afterwards
					}
				}
			} else if ok && tv.Addr != nil {
				nv := g.havocVal(tv.Addr.ElemT, "as.target")
				if nv.Addr == nil {
					old := g.load(g.cur, tv, tv.Addr.ElemT)
					g.storeTo(g.cur, tv, tv.Addr.ElemT, Val{T: tv.Addr.ElemT, S: fmt.Sprintf("(ite %s %s %s)", res.S, nv.S, old.S)})
				}
			}
		}
		return res
	}
	fc := g.E.contracts.Funcs[key]
	if fc == nil && callee != nil && callee.Signature.Recv() != nil {
		// promoted method through embedding: try the declaring type
		fc = g.E.contracts.Funcs[key]
	}
	if fc != nil {
		if fc.Opts["inline"] == "true" && callee != nil && len(callee.Blocks) > 0 {
			return g.inlineCall(callee, nil, args, rt, pos)
		}
		// &local struct (held as a value) passed by reference: give the callee a temporary heap object
		// holding a copy and copy it back afterwards (copy-in / copy-out)
		type tmpObj struct {
			addr *Addr
			ref  string
			t    types.Type
		}
		var tmps []tmpObj
		for i, a := range args {
			if a.Addr != nil && a.Addr.Kind == "cell" && len(a.Addr.Path) == 0 {
				if _, isStruct := a.Addr.ElemT.Underlying().(*types.Struct); isStruct {
					r := g.allocRef(g.cur)
					g.storeStruct(g.cur, a.Addr.ElemT, r, g.heapGet(g.cur, a.Addr.Heap))
					tmps = append(tmps, tmpObj{a.Addr, r, a.Addr.ElemT})
					args[i] = Val{T: a.T, S: r}
				}
			}
		}
		res := g.applyContract(fc, key, sig, names, args, rt, pos, text)
		if fc.Opts["pure"] == "true" || (len(fc.Modifies) == 0 && fc.Opts["modifies"] != "all") {
			tmps = nil // the callee's contract says it changes nothing
		}
		for _, tm := range tmps {
			g.cur.store[tm.addr.Heap] = g.define(tm.addr.Heap, g.heapSort[tm.addr.Heap], g.loadStruct(g.cur, tm.t, tm.ref))
		}
		return res
	}
	// no contract
	if key != "" && g.E.effectFree(key) {
		g.note("call to %s: effect-free, result unconstrained", key)
		return g.havocVal(rt, "ret."+key)
	}
	if key == "" {
		key = "<dynamic " + c.Value.Name() + ">"
	}
	g.note("call to %s has no contract: heap havocked, result unconstrained", key)
	g.uncontracted[key]++
	for _, a := range args {
		if a.Addr != nil && a.Addr.Kind == "cell" {
			g.escaped[a.Addr.Heap] = true
		}
	}
	g.havocAll(g.cur, key)
	return g.havocVal(rt, "ret."+key)
}

func (g *Gen) applyContract(fc *FuncContract, key string, sig *types.Signature, names []string, args []Val, rt types.Type, pos token.Pos, text string) Val {
	if p, ok := fc.Opts["params"]; ok {
		names = strings.Split(p, ",")
	}
	env := &Env{vars: map[string]Val{}, st: g.cur, pkg: g.pkgOfKey(key)}
	for i, n := range names {
		if i < len(args) {
			env.vars[n] = args[i]
			env.vars[n+"0"] = args[i]
		}
	}
	g.callCount[key]++
	if sig.Recv() != nil && len(args) > 0 && args[0].Addr == nil && fc.Opts["nilrecv"] != "true" {
		if _, isPtr := sig.Recv().Type().Underlying().(*types.Pointer); isPtr {
			g.oblige("pre", key+":receiver-nonnil @ "+text, "(not (= "+args[0].S+" 0))", pos, "")
			g.assume("(not (= " + args[0].S + " 0))")
		}
	}
	// preconditions
	for i, r := range fc.Requires {
		if r.E == nil {
			continue
		}
		s, err := g.evalBool(env, r.E)
		if err != nil {
			g.E.fatalf("%s:%d: %v", r.File, r.Line, err)
			continue
		}
		label := r.Label
		if label == "" {
			label = fmt.Sprintf("%d", i+1)
		}
		g.oblige("pre", key+":"+label+" @ "+text, s, pos, r.Text)
		g.assume(s)
	}
	if key == g.key && g.inlineDepth == 0 && fc.Decreases != nil && fc.Decreases.E != nil && g.decEntryFn != "" {
		// recursive call: the termination measure is bounded below and strictly smaller for the callee
		m := g.eval(env, fc.Decreases.E)
		g.oblige("dec", "recursion @ "+text, fmt.Sprintf("(and %s %s)", g.le(g.idxLit(0), g.decEntryFn), g.lt(m.S, g.decEntryFn)), pos, fc.Decreases.Text)
	}
	old := g.cur.clone()
	env.old = old
	// frame: havoc what the callee may modify
	if fc.Opts["modifies"] == "all" {
		g.havocAll(g.cur, key)
	}
	env.st = old // locations of a modifies clause denote objects of the pre-state
	for _, m := range fc.Modifies {
		for _, le := range m.Es {
			if err := g.havocLoc(env, le); err != nil {
				g.E.fatalf("%s:%d: %v", m.File, m.Line, err)
			}
		}
	}
	if fc.Opts["pure"] != "true" && fc.Opts["noalloc"] != "true" {
		oa := g.heapGet(g.cur, "$alloc")
		na := g.heapHavoc(g.cur, "$alloc")
		g.assume(fmt.Sprintf("(<= %s %s)", oa, na))
	}
	env.st = g.cur
	// results
	var res Val
	res = g.havocVal(rt, "ret."+key)
	g.bindResults(env, fc, sig, res)
	for _, en := range fc.Ensures {
		if en.E == nil {
			continue
		}
		s, err := g.evalBool(env, en.E)
		if err != nil {
			g.E.fatalf("%s:%d: %v", en.File, en.Line, err)
			continue
		}
		g.assume(s)
	}
	return res
}

// atomicCall models sync/atomic operations on a cell as plain reads and writes
// (sequential semantics; interleavings are not analysed).
func (g *Gen) atomicCall(key string, args []Val, rt types.Type, pos token.Pos, text string) (Val, bool) {
	if !strings.HasPrefix(key, "atomic.") || len(args) == 0 || args[0].Addr == nil {
		return Val{}, false
	}
	name := strings.TrimPrefix(key, "atomic.")
	elem := args[0].Addr.ElemT
	switch {
	case strings.HasPrefix(name, "Load"):
		return g.load(g.cur, args[0], elem), true
	case strings.HasPrefix(name, "Store") && len(args) == 2:
		g.storeTo(g.cur, args[0], elem, args[1])
		return Val{T: rt, S: "0"}, true
	case strings.HasPrefix(name, "Add") && len(args) == 2 && isIntType(elem):
		old := g.load(g.cur, args[0], elem)
		var nv string
		if g.mode == ModeBV {
			nv = "(bvadd " + old.S + " " + args[1].S + ")"
		} else {
			nv = g.wrapInt(elem, "(+ "+old.S+" "+args[1].S+")")
		}
		n := Val{T: elem, S: g.define("atomic", g.sortOf(elem), nv)}
		g.storeTo(g.cur, args[0], elem, n)
		return n, true
	case strings.HasPrefix(name, "Swap") && len(args) == 2:
		old := g.load(g.cur, args[0], elem)
		g.storeTo(g.cur, args[0], elem, args[1])
		return old, true
	case strings.HasPrefix(name, "CompareAndSwap") && len(args) == 3:
		old := g.load(g.cur, args[0], elem)
		eq := g.define("cas", "Bool", "(= "+old.S+" "+args[1].S+")")
		g.storeTo(g.cur, args[0], elem, Val{T: elem, S: fmt.Sprintf("(ite %s %s %s)", eq, args[2].S, old.S)})
		return Val{T: rt, S: eq}, true
	}
	return Val{}, false
}

func (g *Gen) pkgOfKey(key string) *types.Package {
	pn := key
	if i := strings.Index(key, "."); i >= 0 {
		pn = key[:i]
	}
	for _, p := range g.E.prog.AllPackages() {
		if p.Pkg.Name() == pn {
			return p.Pkg
		}
	}
	if g.fn != nil && g.fn.Pkg != nil {
		return g.fn.Pkg.Pkg
	}
	return nil
}

func (g *Gen) bindResults(env *Env, fc *FuncContract, sig *types.Signature, res Val) {
	var names []string
	if r, ok := fc.Opts["results"]; ok {
		names = strings.Split(r, ",")
	}
	n := sig.Results().Len()
	for i := 0; i < n; i++ {
		var v Val
		if n == 1 {
			v = res
		} else if i < len(res.Tuple) {
			v = res.Tuple[i]
		}
		env.vars[fmt.Sprintf("r%d", i)] = v
		if i < len(names) {
			env.vars[names[i]] = v
		} else if nm := sig.Results().At(i).Name(); nm != "" && nm != "_" {
			env.vars[nm] = v
		}
	}
	if n == 1 {
		env.vars["result"] = res
	}
}

// havocLoc forgets the location denoted by a modifies expression.
func (g *Gen) havocLoc(env *Env, le Expr) error {
	switch x := le.(type) {
	case *EField:
		if gd, ok := g.E.contracts.Ghosts[x.Name]; ok && gd.Kind == "field" {
			return g.havocGhostField(env, gd, x.X)
		}
		base := g.eval(env, x.X)
		if base.T == nil {
			return fmt.Errorf("modifies %s: base has no Go type", le)
		}
		var pkg *types.Package
		if n, ok := derefNamed(base.T); ok && n.Obj().Pkg() != nil {
			pkg = n.Obj().Pkg()
		}
		obj, path, _ := types.LookupFieldOrMethod(base.T, true, pkg, x.Name)
		if obj == nil {
			return fmt.Errorf("modifies %s: no such field", le)
		}
		cur := base
		for _, i := range path[:len(path)-1] {
			cur = g.fieldStep(env, cur, i)
		}
		last := path[len(path)-1]
		p, ok := cur.T.Underlying().(*types.Pointer)
		if !ok || cur.Addr != nil {
			return fmt.Errorf("modifies %s: base is not a reference", le)
		}
		st := p.Elem()
		f := st.Underlying().(*types.Struct).Field(last)
		if _, isStruct := f.Type().Underlying().(*types.Struct); isStruct {
			sub := g.subRef(st, last, cur.S)
			g.havocStructAt(f.Type(), sub)
			return nil
		}
		h := g.fieldHeap(st, last)
		nv := g.havocVal(f.Type(), "mod")
		if nv.Addr != nil {
			return fmt.Errorf("modifies %s: pointer-to-cell field", le)
		}
		g.heapSet(g.cur, h, fmt.Sprintf("(store %s %s %s)", g.heapGet(g.cur, h), cur.S, nv.S))
		return nil
	case *ECall:
		if gd, ok := g.E.contracts.Ghosts[x.Fun]; ok && gd.Kind == "field" && len(x.Args) == 1 {
			return g.havocGhostField(env, gd, x.Args[0])
		}
		if x.Fun == "contents" && len(x.Args) == 1 {
			// contents(s): the backing array of slice s
			v := g.eval(env, x.Args[0])
			sl, ok := v.T.Underlying().(*types.Slice)
			if !ok {
				return fmt.Errorf("contents() needs a slice")
			}
			h := g.arrHeap(sl.Elem())
			na := g.fresh("arr", "(Array "+g.idxSort()+" "+g.sortOf(sl.Elem())+")")
			oldArr := fmt.Sprintf("(select %s (sl.ref %s))", g.heapGet(g.cur, h), v.S)
			// only the elements of the slice itself, s[0] .. s[len(s)-1], may change: the rest of the backing array keeps its
			// contents (functions under contract are held to this by their frame obligation, see checkFrame)
			is := g.idxSort()
			lo := "(sl.off " + v.S + ")"
			hi := g.add(lo, "(sl.len "+v.S+")")
			g.assume(fmt.Sprintf("(forall ((j %s)) (! (=> (or %s %s) (= (select %s j) (select %s j))) :pattern ((select %s j))))", is, g.lt("j", lo), g.le(hi, "j"), na, oldArr, na))
			g.heapSet(g.cur, h, fmt.Sprintf("(store %s (sl.ref %s) %s)", g.heapGet(g.cur, h), v.S, na))
			return nil
		}
		if x.Fun == "fields" && len(x.Args) == 1 {
			// fields(p): every field of the struct p points to (embedded structs included)
			v := g.eval(env, x.Args[0])
			if v.Addr != nil || v.T == nil {
				return fmt.Errorf("fields() needs a struct reference")
			}
			p, ok := v.T.Underlying().(*types.Pointer)
			if !ok {
				return fmt.Errorf("fields() needs a pointer to struct")
			}
			// a nil reference has no fields to modify
			save := g.cur.clone()
			g.havocStructAt(p.Elem(), v.S)
			for h, t := range g.cur.store {
				if old, ok := save.store[h]; (!ok || old != t) && strings.HasPrefix(h, "F.") {
					g.cur.store[h] = g.define(h, g.heapSort[h], fmt.Sprintf("(ite (= %s 0) %s %s)", v.S, g.heapGet(save, h), t))
				}
			}
			return nil
		}
		if x.Fun == "all" && len(x.Args) == 1 {
			// all(Type.field): the field of every object
			if f, ok := x.Args[0].(*EField); ok {
				if h, ok := g.allFieldHeap(f); ok {
					g.heapHavoc(g.cur, h)
					return nil
				}
			}
			if id, ok := x.Args[0].(*EIdent); ok {
				// all(ghostfield): the ghost field of every object
				if gd, ok := g.E.contracts.Ghosts[id.Name]; ok && gd.Kind == "field" {
					h, _, _, _ := g.ghostHeap(gd)
					g.heapHavoc(g.cur, h)
					return nil
				}
			}
			return fmt.Errorf("bad all(...) location")
		}
		if x.Fun == "allentries" && len(x.Args) == 2 {
			// allentries("K", "V"): the contents of every map[K]V
			mt, err := g.mapTypeOf(x)
			if err != nil {
				return err
			}
			dom, val := g.mapHeaps(mt)
			g.heapHavoc(g.cur, dom)
			g.heapHavoc(g.cur, val)
			return nil
		}
		if x.Fun == "entries" && len(x.Args) == 1 {
			// entries(m): the contents of map m
			v := g.eval(env, x.Args[0])
			mt, ok := v.T.Underlying().(*types.Map)
			if !ok {
				return fmt.Errorf("entries() needs a map")
			}
			dom, val := g.mapHeaps(mt)
			ks, vs := g.sortOf(mt.Key()), g.sortOf(mt.Elem())
			nd := g.fresh("dom", "(Array "+ks+" Bool)")
			nv := g.fresh("val", "(Array "+ks+" "+vs+")")
			g.heapSet(g.cur, dom, fmt.Sprintf("(store %s %s %s)", g.heapGet(g.cur, dom), v.S, nd))
			g.heapSet(g.cur, val, fmt.Sprintf("(store %s %s %s)", g.heapGet(g.cur, val), v.S, nv))
			g.assume(fmt.Sprintf("(>= (%s %s) 0)", g.mapCard(mt), nd))
			return nil
		}
	case *EIdent:
		if gd, ok := g.E.contracts.Ghosts[x.Name]; ok && gd.Kind == "var" {
			_, sort := g.specType(gd.Sort)
			h := "ghost." + x.Name
			g.heapDecl(h, sort)
			g.heapHavoc(g.cur, h)
			return nil
		}
		// a cell-valued parameter (pointer to scalar)
		if v, ok := env.vars[x.Name]; ok && v.Addr != nil {
			nv := g.havocVal(v.Addr.ElemT, "mod")
			g.storeTo(g.cur, v, v.Addr.ElemT, nv)
			return nil
		}
	case *EUnary:
	}
	return fmt.Errorf("unsupported modifies location %s", le)
}

func (g *Gen) havocStructAt(t types.Type, r string) {
	s := t.Underlying().(*types.Struct)
	for i := 0; i < s.NumFields(); i++ {
		f := s.Field(i)
		if _, ok := f.Type().Underlying().(*types.Struct); ok {
			g.havocStructAt(f.Type(), g.subRef(t, i, r))
			continue
		}
		h := g.fieldHeap(t, i)
		nv := g.havocVal(f.Type(), "mod")
		if nv.Addr != nil {
			continue
		}
		g.heapSet(g.cur, h, fmt.Sprintf("(store %s %s %s)", g.heapGet(g.cur, h), r, nv.S))
	}
}

func (g *Gen) havocGhostField(env *Env, gd *GhostDecl, ownerE Expr) error {
	heap, owner, valSort, valT := g.ghostHeap(gd)
	o := g.ghostOwner(g.eval(env, ownerE), owner)
	var nv string
	if valT != nil {
		nv = g.havocVal(valT, "gmod").S
	} else {
		nv = g.fresh("gmod", valSort)
	}
	g.heapSet(g.cur, heap, fmt.Sprintf("(store %s %s %s)", g.heapGet(g.cur, heap), o.S, nv))
	return nil
}

func (g *Gen) builtin(b *ssa.Builtin, c *ssa.CallCommon, rt types.Type, pos token.Pos, text string) Val {
	it := types.Typ[types.Int]
	switch b.Name() {
	case "len", "cap":
		v := g.val(c.Args[0])
		switch vt := c.Args[0].Type().Underlying().(type) {
		case *types.Slice:
			if b.Name() == "len" {
				return Val{T: it, S: "(sl.len " + v.S + ")"}
			}
			return Val{T: it, S: "(sl.cap " + v.S + ")"}
		case *types.Basic:
			return Val{T: it, S: "(s.len " + v.S + ")"}
		case *types.Map:
			dom, _ := g.mapHeaps(vt)
			if g.mode == ModeInt {
				r := g.define("mlen", "Int", fmt.Sprintf("(ite (= %s 0) 0 (%s (select %s %s)))", v.S, g.mapCard(vt), g.heapGet(g.cur, dom), v.S))
				g.assume("(>= " + r + " 0)")
				g.assume("(<= " + r + " " + g.idxLit(maxLen) + ")")
				// a map of size 0 has no entries (the converse, an empty domain has size 0, is stated where maps are made)
				ks := g.sortOf(vt.Key())
				g.assume(fmt.Sprintf("(=> (= %s 0) (forall ((k %s)) (! (not (and (not (= %s 0)) (select (select %s %s) k))) :pattern ((select (select %s %s) k)))))", r, ks, v.S, g.heapGet(g.cur, dom), v.S, g.heapGet(g.cur, dom), v.S))
				return Val{T: it, S: r}
			}
		case *types.Array:
			return Val{T: it, S: g.idxLit(vt.Len())}
		case *types.Pointer:
			if arr, ok := vt.Elem().Underlying().(*types.Array); ok {
				return Val{T: it, S: g.idxLit(arr.Len())}
			}
		case *types.Chan:
			if qc, ok := g.E.contracts.Ghosts["qcur"]; ok && b.Name() == "len" && v.Addr == nil && g.mode == ModeInt {
				// sequential model (A-seq): the number of items waiting in the channel is the ghost field qcur
				h, _, _, _ := g.ghostHeap(qc)
				r := g.define("chanlen", "Int", fmt.Sprintf("(select %s %s)", g.heapGet(g.cur, h), v.S))
				g.assume(g.le(g.idxLit(0), r))
				return Val{T: it, S: r}
			}
			r := g.havocVal(it, "chanlen")
			g.assume(g.le(g.idxLit(0), r.S))
			return r
		}
	case "append":
		return g.appendBuiltin(c, rt, pos, text)
	case "copy":
		dst, src := g.val(c.Args[0]), g.val(c.Args[1])
		dt := c.Args[0].Type().Underlying().(*types.Slice)
		h := g.arrHeap(dt.Elem())
		var srcLen, srcAt string
		if isString(c.Args[1].Type()) {
			srcLen = "(s.len " + src.S + ")"
			srcAt = "(s.at " + src.S + " %s)"
		} else {
			srcLen = "(sl.len " + src.S + ")"
			srcAt = "(select (select " + g.heapGet(g.cur, h) + " (sl.ref " + src.S + ")) " + g.add("(sl.off "+src.S+")", "%s") + ")"
		}
		n := g.define("ncopy", g.idxSort(), fmt.Sprintf("(ite %s (sl.len %s) %s)", g.le("(sl.len "+dst.S+")", srcLen), dst.S, srcLen))
		na := g.fresh("arr", "(Array "+g.idxSort()+" "+g.sortOf(dt.Elem())+")")
		oldArr := fmt.Sprintf("(select %s (sl.ref %s))", g.heapGet(g.cur, h), dst.S)
		is := g.idxSort()
		g.assume(fmt.Sprintf("(forall ((i %s)) (! (= (select %s i) (ite (and %s %s) %s (select %s i))) :pattern ((select %s i))))", is, na,
			g.le("(sl.off "+dst.S+")", "i"), g.lt("i", g.add("(sl.off "+dst.S+")", n)), fmt.Sprintf(srcAt, g.sub("i", "(sl.off "+dst.S+")")), oldArr, na))
		g.heapSet(g.cur, h, fmt.Sprintf("(ite (= (sl.ref %s) 0) %s (store %s (sl.ref %s) %s))", dst.S, g.heapGet(g.cur, h), g.heapGet(g.cur, h), dst.S, na))
		return Val{T: it, S: n}
	case "delete":
		m, k := g.val(c.Args[0]), g.val(c.Args[1])
		mt := c.Args[0].Type().Underlying().(*types.Map)
		g.mapDelete(mt, m.S, k.S)
		return Val{T: rt, S: "0"}
	case "print", "println":
		return Val{T: rt, S: "0"}
	case "min", "max":
		a, bb := g.val(c.Args[0]), g.val(c.Args[1])
		cmp := g.binop(token.LEQ, a, bb, types.Typ[types.Bool], pos, text)
		if b.Name() == "min" {
			return Val{T: rt, S: fmt.Sprintf("(ite %s %s %s)", cmp.S, a.S, bb.S)}
		}
		return Val{T: rt, S: fmt.Sprintf("(ite %s %s %s)", cmp.S, bb.S, a.S)}
	case "close":
		g.note("close(chan) abstracted")
		return Val{T: rt, S: "0"}
	case "recover":
		return Val{T: rt, S: "iface.nil"}
	case "ssa:wrapnilchk":
		return g.val(c.Args[0])
	}
	g.note("unsupported builtin %s", b.Name())
	return g.havocVal(rt, "builtin")
}

func (g *Gen) appendBuiltin(c *ssa.CallCommon, rt types.Type, pos token.Pos, text string) Val {
	s := g.val(c.Args[0])
	st := rt.Underlying().(*types.Slice)
	h := g.arrHeap(st.Elem())
	es := g.sortOf(st.Elem())
	is := g.idxSort()
	var addLen string
	var srcAt func(i string) string
	if isString(c.Args[1].Type()) {
		x := g.val(c.Args[1])
		addLen = "(s.len " + x.S + ")"
		srcAt = func(i string) string { return "(s.at " + x.S + " " + i + ")" }
	} else {
		x := g.val(c.Args[1])
		addLen = "(sl.len " + x.S + ")"
		cur := g.heapGet(g.cur, h)
		srcAt = func(i string) string {
			return "(select (select " + cur + " (sl.ref " + x.S + ")) " + g.add("(sl.off "+x.S+")", i) + ")"
		}
	}
	// model: the result always lives in a fresh backing array (aliasing through spare capacity is not modelled)
	oldArr := fmt.Sprintf("(select %s (sl.ref %s))", g.heapGet(g.cur, h), s.S)
	ref := g.allocRef(g.cur)
	na := g.fresh("arr", "(Array "+is+" "+es+")")
	nl := g.define("alen", is, g.add("(sl.len "+s.S+")", addLen))
	g.assume(fmt.Sprintf("(forall ((i %s)) (! (and (=> (and %s %s) (= (select %s i) (select %s %s))) (=> (and %s %s) (= (select %s i) %s))) :pattern ((select %s i))))",
		is, g.le(g.idxLit(0), "i"), g.lt("i", "(sl.len "+s.S+")"), na, oldArr, g.add("(sl.off "+s.S+")", "i"),
		g.le("(sl.len "+s.S+")", "i"), g.lt("i", nl), na, srcAt(g.sub("i", "(sl.len "+s.S+")")), na))
	g.heapSet(g.cur, h, fmt.Sprintf("(store %s %s %s)", g.heapGet(g.cur, h), ref, na))
	ncap := g.fresh("acap", is)
	g.assume(fmt.Sprintf("(and %s %s)", g.le(nl, ncap), g.le(ncap, g.idxLit(maxLen))))
	g.oblige("alloc", "append-size "+text, g.le(nl, g.idxLit(maxLen)), pos, "")
	g.assume(g.le(nl, g.idxLit(maxLen)))
	return Val{T: rt, S: g.define("sl", "Slice", fmt.Sprintf("(mk-slice %s %s %s %s)", ref, g.idxLit(0), nl, ncap))}
}

// inlineCall symbolically executes a callee body in place (closures, //@ inline).
func (g *Gen) inlineCall(fn *ssa.Function, binds []Val, args []Val, rt types.Type, pos token.Pos) Val {
	if g.inlineDepth > 3 {
		g.note("inline depth exceeded for %s", fn.Name())
		g.havocAll(g.cur, fn.Name())
		return g.havocVal(rt, "ret.inl")
	}
	return g.runInline(fn, binds, args, rt, pos)
}

// mapTypeOf resolves allentries("K", "V") to the Go map type map[K]V.
func (g *Gen) mapTypeOf(x *ECall) (mt *types.Map, err error) {
	defer func() {
		if r := recover(); r != nil {
			if ee, ok := r.(evalErr); ok {
				err = fmt.Errorf("%s", string(ee))
				return
			}
			panic(r)
		}
	}()
	ks, ok1 := x.Args[0].(*EStr)
	vs, ok2 := x.Args[1].(*EStr)
	if !ok1 || !ok2 {
		return nil, fmt.Errorf("allentries needs two type names")
	}
	kt, _ := g.specType(ks.S)
	vt, _ := g.specType(vs.S)
	if kt == nil || vt == nil {
		return nil, fmt.Errorf("allentries: unknown type %s / %s", ks.S, vs.S)
	}
	return types.NewMap(kt, vt), nil
}
