package main

import (
	"encoding/json"
	"fmt"
	"os"
	"path/filepath"
	"sort"
	"strings"
)

type KnownFinding struct {
	Property   string `json:"property"`
	Obligation string `json:"obligation"` // exact obligation name
	Status     string `json:"status"`     // open | fixed
	Line       string `json:"line"`       // the KNOWN-FINDING / fixed line, verbatim
	What       string `json:"what"`
	Witness    string `json:"witness,omitempty"`
	Commit     string `json:"commit,omitempty"`
	// Mask: contract expression over the function's inputs describing exactly the failing class.
	// The check then proves "post OR mask", so any other violation of the same conjunct is reported.
	// Without a mask the whole conjunct is excluded.
	Mask string `json:"mask,omitempty"`
}

type propResult struct {
	exit        int
	obls        []*Obl
	functions   []string
	notes       []string
	uncontract  map[string]int
	violations  []string
	known       []string
	stats       *SolveStats
	fatal       string
	trusted     []string
	lemmaCount  int
}

func loadKnown() []KnownFinding {
	var ks []KnownFinding
	if os.Getenv("VERIF_IGNORE_KNOWN") != "" {
		return nil // development aid: show every finding as a violation, with its replay
	}
	b, err := os.ReadFile(filepath.Join(verifRoot(), "known_findings.json"))
	if err != nil {
		return nil
	}
	json.Unmarshal(b, &ks)
	return ks
}

func runProperty(cfg *PropConfig, tier string, seed int) *propResult {
	res := &propResult{uncontract: map[string]int{}, stats: &SolveStats{ByBackend: map[string]int{}}}
	var extra []string
	for _, c := range cfg.Contracts {
		extra = append(extra, filepath.Join(verifRoot(), c))
	}
	E, err := LoadEngine(repoRoot(), cfg.Packages, trustedFiles(extra))
	if err != nil {
		res.fatal = err.Error()
		res.exit = 1
		return res
	}
	E.coverReturns = tier == "thorough"
	lockDiscipline = cfg.LockDiscipline
	E.masks = map[string]Expr{}
	for _, k := range loadKnown() {
		if k.Status == "open" && k.Property == cfg.ID && k.Mask != "" {
			m, err := ParseExpr(k.Mask)
			if err != nil {
				res.fatal = "known_findings.json: bad mask for " + k.Obligation + ": " + err.Error()
				res.exit = 1
				return res
			}
			E.masks[k.Obligation] = m
		}
	}
	var all []*Obl
	for _, fs := range cfg.Functions {
		fn := E.funcs[fs.Key]
		if fn == nil {
			// a function under contract disappeared: its obligations cannot be generated
			o := &Obl{Name: fs.Key + "#missing:function", Kind: "missing", Func: fs.Key, Status: "failed", Raw: "function not found in the current tree"}
			all = append(all, o)
			continue
		}
		fc := E.contracts.Funcs[fs.Key]
		if fc == nil {
			fc = &FuncContract{Key: fs.Key, Opts: map[string]string{"modifies": "all"}, Loops: map[int]*LoopContract{}}
		}
		g, err := GenerateStable(E, fn, fs.Key, fc)
		if err != nil {
			o := &Obl{Name: fs.Key + "#error:generation", Kind: "error", Func: fs.Key, Status: "failed", Raw: err.Error()}
			all = append(all, o)
			continue
		}
		res.functions = append(res.functions, fs.Key)
		for _, n := range g.notes {
			res.notes = append(res.notes, fs.Key+": "+n)
		}
		for k, v := range g.uncontracted {
			res.uncontract[k] += v
		}
		for _, o := range g.obls {
			if selected(fs, o) {
				all = append(all, o)
			}
		}
	}
	// lemmas
	for _, ln := range cfg.Lemmas {
		obls, err := lemmaObligations(E, ln)
		if err != nil {
			all = append(all, &Obl{Name: "lemma:" + ln + "#error", Kind: "error", Status: "failed", Raw: err.Error()})
			continue
		}
		all = append(all, obls...)
		res.lemmaCount++
	}
	if len(E.fatals) > 0 {
		res.fatal = "contract errors: " + strings.Join(E.fatals, "; ")
		res.exit = 1
		return res
	}
	for k, fc := range E.contracts.Funcs {
		if fc.Opts["trusted"] == "true" {
			res.trusted = append(res.trusted, k)
			continue
		}
		for _, en := range fc.Ensures {
			if en.Kind == "axiom" {
				res.trusted = append(res.trusted, k+" (axiom clause: "+en.Text+")")
			}
		}
	}
	for a := range E.axiomsUsed {
		res.trusted = append(res.trusted, "definitional axiom "+a+": "+E.contracts.Axioms[a].Text)
	}
	for f := range E.contracts.Frozen {
		res.trusted = append(res.trusted, "frozen field "+f+" (assumed not written after construction)")
	}
	sort.Strings(res.trusted)
	quickMs, fullMs := 4000, 40000
	if tier == "thorough" {
		quickMs, fullMs = 10000, 180000
	}
	var todo []*Obl
	knownOpen := map[string]bool{}
	for _, k := range loadKnown() {
		if k.Status == "open" && k.Property == cfg.ID {
			knownOpen[k.Obligation] = true
		}
	}
	for _, o := range all {
		if o.Status == "" {
			o.Short = (knownOpen[stripOrdinal(o.Name)] && !o.Masked) || o.Probe
			todo = append(todo, o)
		}
	}
	dir, _ := os.MkdirTemp("", "vcheck")
	defer os.RemoveAll(dir)
	Discharge(todo, dir, quickMs, fullMs, 10, res.stats)
	res.obls = all

	// verdicts
	known := loadKnown()
	replayDir := filepath.Join(verifRoot(), "replays", cfg.ID)
	os.RemoveAll(replayDir)
	for _, o := range all {
		if o.Status == "discharged" {
			continue
		}
		if o.Cover && o.Label == "return-reachable" {
			// a return that cannot be reached under the contract is dead code, not a violation
			o.Status = "discharged"
			o.Backend += " (unreachable return: informational)"
			res.notes = append(res.notes, o.Func+": a return statement is unreachable under the contract ("+o.Pos+")")
			continue
		}
		masked := false
		lookup := stripOrdinal(o.Name)
		if o.Probe {
			lookup = strings.Replace(lookup, "#probe:", "#post:", 1)
		}
		for _, k := range known {
			if o.Masked {
				break // "post OR mask" itself failed: a violation outside the recorded class
			}
			if k.Status == "open" && k.Property == cfg.ID && k.Obligation == lookup {
				masked = true
				line := k.Line
				if line == "" {
					line = fmt.Sprintf("KNOWN-FINDING: property=%s %s", cfg.ID, k.What)
				}
				res.known = append(res.known, line)
			}
		}
		if masked {
			o.Status = "known-finding (" + o.Status + ")"
			continue
		}
		os.MkdirAll(replayDir, 0o755)
		path, replayed := writeReplay(E, cfg, o, replayDir)
		line := fmt.Sprintf("VIOLATION property=%s replay=%s obligation=%s status=%s", cfg.ID, path, o.Name, o.Status)
		if !replayed {
			line += " no-failing-input-found"
		}
		res.violations = append(res.violations, line)
	}
	// known findings whose obligation now discharges are reported as resolved (informational)
	if len(res.violations) > 0 {
		res.exit = 1
	}
	return res
}

func (res *propResult) write(cfg *PropConfig, tier string, seed int, wall float64) {
	if res.fatal != "" {
		fmt.Printf("ERROR property=%s %s\n", cfg.ID, res.fatal)
		os.MkdirAll(filepath.Join(verifRoot(), "replays", cfg.ID), 0o755)
		p := filepath.Join(verifRoot(), "replays", cfg.ID, "setup-error.txt")
		os.WriteFile(p, []byte(res.fatal+"\n"), 0o644)
		fmt.Printf("VIOLATION property=%s replay=%s obligation=setup status=error no-failing-input-found\n", cfg.ID, p)
	}
	seen := map[string]bool{}
	for _, k := range res.known {
		if !seen[k] {
			seen[k] = true
			fmt.Println(k)
		}
	}
	for _, v := range res.violations {
		fmt.Println(v)
	}
	nObl, nDis, nCover := 0, 0, 0
	var samples []map[string]interface{}
	byKind := map[string]int{}
	var knownObls []string
	for _, o := range res.obls {
		if o.Cover {
			nCover++
			if o.Status != "discharged" {
				// a contradictory precondition: counts as failure (already reported above)
			}
			continue
		}
		if strings.HasPrefix(o.Status, "known-finding") {
			// recorded defect: not claimed, not counted as an obligation of this run's proof
			knownObls = append(knownObls, o.Name)
			continue
		}
		nObl++
		byKind[o.Kind]++
		if o.Status == "discharged" {
			nDis++
		}
		if len(samples) < 12 || o.Status != "discharged" {
			if len(samples) < 40 {
				samples = append(samples, map[string]interface{}{"obligation": o.Name, "status": o.Status, "backend": o.Backend, "ms": o.Ms, "at": o.Pos, "clause": o.Text})
			}
		}
	}
	// the slowest obligations of this run: the margin against the solver timeouts
	byMs := append([]*Obl{}, res.obls...)
	sort.SliceStable(byMs, func(i, j int) bool { return byMs[i].Ms > byMs[j].Ms })
	var slowest []map[string]interface{}
	for i := 0; i < len(byMs) && i < 8; i++ {
		slowest = append(slowest, map[string]interface{}{"obligation": byMs[i].Name, "status": byMs[i].Status, "backend": byMs[i].Backend, "ms": byMs[i].Ms})
	}
	sort.Strings(res.notes)
	var unc []string
	for k, v := range res.uncontract {
		unc = append(unc, fmt.Sprintf("%s (x%d)", k, v))
	}
	sort.Strings(unc)
	cov := map[string]interface{}{
		"obligations":              nObl,
		"discharged":               nDis,
		"checker_cmd":              fmt.Sprintf("/verif/bin/vcheck check props/%s.json --tier %s", cfg.ID, tier),
		"trusted_base":             append([]string{"the VC generator itself (go/ssa -> SMT-LIB translation, /verif/engine)", "z3 4.8.12, z3 5.1.0, cvc5 1.0 (first definite answer wins)", "go/ssa and go/types (golang.org/x/tools v0.29.0) as the reading of the Go source"}, prefixAll("trusted contract: ", res.trusted)...),
		"functions_under_contract": res.functions,
		"obligations_by_kind":      byKind,
		"vacuity_covers_checked":   nCover,
		"backends":                 res.stats.ByBackend,
		"solver_ms_total":          res.stats.TotalMs,
		"samples":                  samples,
		"slowest_obligations":      slowest,
		"abstractions":             res.notes,
		"calls_without_contract":   unc,
		"not_decided":              cfg.NotDecided,
		"bounded":                  cfg.Bounded,
		"known_findings":           res.known,
		"obligations_excluded_as_known_findings": knownObls,
		"lemmas":                   cfg.Lemmas,
	}
	as := append([]string{}, cfg.Assumptions...)
	as = append(as,
		"sequential semantics: no other goroutine changes the objects a function touches while it runs",
		"slices/strings are shorter than 2^40 elements; append always yields a fresh backing array (aliasing through spare capacity not modelled)",
		"integer arithmetic: mathematical integers with a no-wrap obligation on every + - * (arith=int), or exact machine bit-vectors (arith=bv)",
	)
	if !cfg.LockDiscipline {
		as = append(as, "lock discipline: that a lock is not already held by the calling goroutine when a function that takes it is called (preconditions labelled C32-...) is decided by the C32 check, not here")
	}
	ev := EvidenceOut{PropertyID: cfg.ID, Tier: tier, Seed: seed, Level: "proof", Coverage: cov, Assumptions: as, WallS: wall, Violations: len(res.violations)}
	os.MkdirAll(filepath.Join(verifRoot(), "evidence"), 0o755)
	b, _ := json.MarshalIndent(ev, "", " ")
	os.WriteFile(filepath.Join(verifRoot(), "evidence", cfg.ID+".json"), b, 0o644)
	fmt.Printf("property=%s tier=%s obligations=%d discharged=%d covers=%d known=%d violations=%d wall=%.1fs\n", cfg.ID, tier, nObl, nDis, nCover, len(seen), len(res.violations), wall)
}

// stripOrdinal removes the trailing [n] that distinguishes equal obligation names (one per return
// statement / call site), so that a known finding is identified by function, kind and clause.
func stripOrdinal(n string) string {
	if strings.HasSuffix(n, "]") {
		if i := strings.LastIndex(n, "["); i > 0 {
			num := n[i+1 : len(n)-1]
			ok := num != ""
			for _, c := range num {
				if c < '0' || c > '9' {
					ok = false
				}
			}
			if ok {
				return n[:i]
			}
		}
	}
	return n
}

func prefixAll(p string, xs []string) []string {
	var out []string
	for _, x := range xs {
		out = append(out, p+x)
	}
	return out
}

// writeReplay writes the replay file for a failed obligation. Returns (path, replayedOnRealCode).
func writeReplay(E *Engine, cfg *PropConfig, o *Obl, dir string) (string, bool) {
	name := sanitize(o.Name)
	if len(name) > 120 {
		name = name[:120]
	}
	path := filepath.Join(dir, name+".txt")
	var sb strings.Builder
	fmt.Fprintf(&sb, "property: %s\nobligation: %s\nkind: %s\nstatus: %s\nat: %s\nclause: %s\nbackend: %s\n\nsolver output:\n%s\n", cfg.ID, o.Name, o.Kind, o.Status, o.Pos, o.Text, o.Backend, o.Raw)
	if o.Model != "" {
		fmt.Fprintf(&sb, "\ncounterexample (solver model, parameters and havocked values):\n%s\n", modelSummary(o.Model, 200))
	}
	ok := false
	if o.gen != nil {
		gopath, replayed, log := tryReplay(E, cfg, o, dir)
		if gopath == "" && log != "" {
			fmt.Fprintf(&sb, "\nreplay on the real code not attempted: %s\n", log)
		}
		if gopath != "" {
			fmt.Fprintf(&sb, "\nreplay on the real code: %s\n%s\n", gopath, log)
			ok = replayed
			if replayed {
				os.WriteFile(path, []byte(sb.String()), 0o644)
				return gopath, true
			}
		}
	}
	os.WriteFile(path, []byte(sb.String()), 0o644)
	return path, ok
}
