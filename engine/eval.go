package main

import (
	"fmt"
	"go/constant"
	"go/token"
	"go/types"
	"math/big"
	"strings"
)

// Env is the environment a contract expression is evaluated in.
type Env struct {
	vars   map[string]Val
	st     *State
	old    *State
	lookup func(name string) (Val, bool)
	pkg    *types.Package
	depth  int
}

func (e *Env) with(name string, v Val) *Env {
	n := *e
	n.vars = make(map[string]Val, len(e.vars)+1)
	for k, x := range e.vars {
		n.vars[k] = x
	}
	n.vars[name] = v
	return &n
}

type evalErr string

func (g *Gen) evalBool(env *Env, e Expr) (s string, err error) {
	defer func() {
		if r := recover(); r != nil {
			if ee, ok := r.(evalErr); ok {
				err = fmt.Errorf("%s", string(ee))
				return
			}
			panic(r)
		}
	}()
	v := g.eval(env, e)
	if v.sort(g) != "Bool" {
		return "", fmt.Errorf("expression %s is not boolean (sort %s)", e, v.sort(g))
	}
	return v.S, nil
}

func (v Val) sort(g *Gen) string {
	if v.Sort != "" {
		return v.Sort
	}
	if v.T == nil {
		return "?"
	}
	if v.Untyped {
		return g.idxSort()
	}
	return g.sortOf(v.T)
}

var specTypes = map[string]types.Type{
	"int": types.Typ[types.Int], "int64": types.Typ[types.Int64], "int32": types.Typ[types.Int32], "int16": types.Typ[types.Int16], "int8": types.Typ[types.Int8],
	"uint": types.Typ[types.Uint], "uint64": types.Typ[types.Uint64], "uint32": types.Typ[types.Uint32], "uint16": types.Typ[types.Uint16], "uint8": types.Typ[types.Uint8], "byte": types.Typ[types.Uint8],
	"bool": types.Typ[types.Bool], "string": types.Typ[types.String], "str": types.Typ[types.String],
	"error": types.Universe.Lookup("error").Type(),
}

// specType maps a contract type name to (Go type or nil, SMT sort).
func (g *Gen) specType(name string) (types.Type, string) {
	if t, ok := specTypes[name]; ok {
		return t, g.sortOf(t)
	}
	switch name {
	case "ref":
		return nil, "Int"
	case "bytes":
		return nil, "(Array " + g.idxSort() + " " + g.sortOf(types.Typ[types.Uint8]) + ")"
	case "slice":
		return nil, "Slice"
	case "iface":
		return nil, "Iface"
	case "mathint":
		return nil, "Int"
	}
	// package-level named type of the current package
	if g.fn != nil && g.fn.Pkg != nil {
		if o := g.fn.Pkg.Pkg.Scope().Lookup(name); o != nil {
			if tn, ok := o.(*types.TypeName); ok {
				return tn.Type(), g.sortOf(tn.Type())
			}
		}
	}
	if strings.HasPrefix(name, "(") {
		return nil, name
	}
	if strings.HasPrefix(name, "[]") {
		et, _ := g.specType(strings.TrimPrefix(name, "[]"))
		if et != nil {
			return types.NewSlice(et), "Slice"
		}
	}
	if strings.HasPrefix(name, "map[") {
		// map[K]V
		depth := 0
		for i, ch := range name {
			if ch == '[' {
				depth++
			} else if ch == ']' {
				depth--
				if depth == 0 {
					kt, _ := g.specType(name[4:i])
					vt, _ := g.specType(name[i+1:])
					if kt != nil && vt != nil {
						return types.NewMap(kt, vt), "Int"
					}
					break
				}
			}
		}
	}
	if strings.HasPrefix(name, "seq:") {
		et, es := g.specType(strings.TrimPrefix(name, "seq:"))
		sort := "(Array Int " + es + ")"
		if et != nil {
			if g.seqElem == nil {
				g.seqElem = map[string]types.Type{}
			}
			g.seqElem[sort] = et
		}
		return nil, sort
	}
	if i := strings.Index(name, "."); i > 0 {
		// qualified type name pkg.Type
		for _, p := range g.E.prog.AllPackages() {
			if p.Pkg.Name() == name[:i] {
				if tn, ok := p.Pkg.Scope().Lookup(name[i+1:]).(*types.TypeName); ok {
					return tn.Type(), g.sortOf(tn.Type())
				}
			}
		}
	}
	if strings.HasPrefix(name, "*") {
		t, _ := g.specType(name[1:])
		if t != nil {
			return types.NewPointer(t), "Int"
		}
	}
	for _, p := range g.E.pkgs {
		if tn, ok := p.Types.Scope().Lookup(name).(*types.TypeName); ok {
			return tn.Type(), g.sortOf(tn.Type())
		}
	}
	panic(evalErr("unknown contract type " + name))
}

func (g *Gen) eval(env *Env, e Expr) Val {
	switch x := e.(type) {
	case *EInt:
		return Val{T: types.Typ[types.UntypedInt], Untyped: true, C: x.V, S: g.intLit(x.V, types.Typ[types.Int])}
	case *EBool:
		if x.V {
			return Val{T: types.Typ[types.Bool], S: "true"}
		}
		return Val{T: types.Typ[types.Bool], S: "false"}
	case *EStr:
		return Val{T: types.Typ[types.String], S: g.strLit(x.S)}
	case *ENil:
		return Val{T: types.Typ[types.UntypedNil], S: "nil"}
	case *EIdent:
		return g.evalIdent(env, x.Name)
	case *EUnary:
		v := g.eval(env, x.X)
		switch x.Op {
		case "!":
			return Val{T: types.Typ[types.Bool], S: "(not " + v.S + ")"}
		case "-":
			if v.C != nil {
				c := new(big.Int).Neg(v.C)
				return Val{T: v.T, Untyped: v.Untyped, C: c, S: g.intLit(c, g.litType(v))}
			}
			if g.mode == ModeBV {
				return Val{T: v.T, S: "(bvneg " + v.S + ")"}
			}
			return Val{T: v.T, S: "(- " + v.S + ")"}
		}
		panic(evalErr("unsupported unary " + x.Op))
	case *EBinary:
		return g.evalBinary(env, x)
	case *ECond:
		c := g.eval(env, x.C)
		a, b := g.eval(env, x.A), g.eval(env, x.B)
		a, b = g.unify(a, b)
		return Val{T: a.T, Sort: a.Sort, S: fmt.Sprintf("(ite %s %s %s)", c.S, a.S, b.S)}
	case *EQuant:
		return g.evalQuant(env, x)
	case *ECall:
		return g.evalCall(env, x)
	case *EIndex:
		return g.evalIndex(env, x)
	case *ESlice:
		return g.evalSlice(env, x)
	case *EField:
		// pkg.Name: a constant or variable of a package the function's package imports (io.EOF)
		if id, isIdent := x.X.(*EIdent); isIdent && env.pkg != nil {
			if _, isVar := env.vars[id.Name]; !isVar {
				for _, p := range append([]*types.Package{env.pkg}, env.pkg.Imports()...) {
					if p.Name() == id.Name {
						if o := p.Scope().Lookup(x.Name); o != nil {
							return g.objVal(env, o)
						}
					}
				}
			}
		}
		base := g.eval(env, x.X)
		return g.selectField(env, base, x.Name)
	}
	panic(evalErr(fmt.Sprintf("unsupported expression %T", e)))
}

func (g *Gen) litType(v Val) types.Type {
	if v.Untyped || v.T == nil {
		return types.Typ[types.Int]
	}
	return v.T
}

// unify gives untyped constants the type of the other operand (matters in bv mode).
func (g *Gen) unify(a, b Val) (Val, Val) {
	if a.T != nil && a.T == types.Typ[types.UntypedNil] {
		a = g.nilOf(b)
	}
	if b.T != nil && b.T == types.Typ[types.UntypedNil] {
		b = g.nilOf(a)
	}
	if g.mode != ModeBV {
		return a, b
	}
	if a.Untyped && !b.Untyped && b.T != nil && isIntType(b.T) && a.C != nil {
		a = Val{T: b.T, C: a.C, S: g.intLit(a.C, b.T)}
	} else if b.Untyped && !a.Untyped && a.T != nil && isIntType(a.T) && b.C != nil {
		b = Val{T: a.T, C: b.C, S: g.intLit(b.C, a.T)}
	} else if a.T != nil && b.T != nil && isIntType(a.T) && isIntType(b.T) && !a.Untyped && !b.Untyped {
		wa, sa, _ := intWidth(a.T.Underlying().(*types.Basic))
		wb, _, _ := intWidth(b.T.Underlying().(*types.Basic))
		_ = sa
		if wa < wb {
			a = Val{T: b.T, S: g.convertInt(a, b.T)}
		} else if wb < wa {
			b = Val{T: a.T, S: g.convertInt(b, a.T)}
		}
	}
	return a, b
}

func (g *Gen) nilOf(other Val) Val {
	s := other.sort(g)
	switch s {
	case "Iface":
		return Val{T: other.T, Sort: other.Sort, S: "iface.nil"}
	case "Slice":
		return Val{T: other.T, Sort: other.Sort, S: g.zero(other.T)}
	}
	return Val{T: other.T, Sort: other.Sort, S: "0"}
}

func (g *Gen) evalBinary(env *Env, x *EBinary) Val {
	bt := types.Typ[types.Bool]
	switch x.Op {
	case "==>":
		a, b := g.eval(env, x.X), g.eval(env, x.Y)
		return Val{T: bt, S: "(=> " + a.S + " " + b.S + ")"}
	case "<==>":
		a, b := g.eval(env, x.X), g.eval(env, x.Y)
		return Val{T: bt, S: "(= " + a.S + " " + b.S + ")"}
	case "&&":
		a, b := g.eval(env, x.X), g.eval(env, x.Y)
		return Val{T: bt, S: "(and " + a.S + " " + b.S + ")"}
	case "||":
		a, b := g.eval(env, x.X), g.eval(env, x.Y)
		return Val{T: bt, S: "(or " + a.S + " " + b.S + ")"}
	}
	a, b := g.eval(env, x.X), g.eval(env, x.Y)
	a, b = g.unify(a, b)
	switch x.Op {
	case "==", "!=":
		if a.Addr != nil || b.Addr != nil {
			panic(evalErr("comparison of symbolic addresses in contract"))
		}
		if a.sort(g) != b.sort(g) {
			panic(evalErr(fmt.Sprintf("sort mismatch in %s: %s vs %s", x, a.sort(g), b.sort(g))))
		}
		if a.sort(g) == "Str" {
			g.strEqFacts(a.S, b.S)
		}
		s := "(= " + a.S + " " + b.S + ")"
		if x.Op == "!=" {
			s = "(not " + s + ")"
		}
		return Val{T: bt, S: s}
	}
	if x.Op == "+" && a.sort(g) == "Str" && b.sort(g) == "Str" {
		// string concatenation: the same uninterpreted function the code's + is translated to
		f := g.uf("s.concat", []string{"Str", "Str"}, "Str")
		return Val{T: types.Typ[types.String], S: fmt.Sprintf("(%s %s %s)", f, a.S, b.S)}
	}
	if a.C != nil && b.C != nil && a.Untyped && b.Untyped {
		var c *big.Int
		switch x.Op {
		case "+":
			c = new(big.Int).Add(a.C, b.C)
		case "-":
			c = new(big.Int).Sub(a.C, b.C)
		case "*":
			c = new(big.Int).Mul(a.C, b.C)
		case "<<":
			c = new(big.Int).Lsh(a.C, uint(b.C.Int64()))
		}
		if c != nil {
			return Val{T: a.T, Untyped: true, C: c, S: g.intLit(c, types.Typ[types.Int])}
		}
	}
	rt := a.T
	if a.Untyped {
		rt = b.T
	}
	signed := true
	if rt != nil && isIntType(rt) && !(a.Untyped && b.Untyped) {
		_, signed, _ = intWidth(rt.Underlying().(*types.Basic))
	}
	res := func(s string) Val { return Val{T: rt, Untyped: a.Untyped && b.Untyped, S: s} }
	if g.mode == ModeBV {
		cmp := func(s, u string) Val {
			if signed {
				return Val{T: bt, S: "(" + s + " " + a.S + " " + b.S + ")"}
			}
			return Val{T: bt, S: "(" + u + " " + a.S + " " + b.S + ")"}
		}
		switch x.Op {
		case "<":
			return cmp("bvslt", "bvult")
		case "<=":
			return cmp("bvsle", "bvule")
		case ">":
			return cmp("bvsgt", "bvugt")
		case ">=":
			return cmp("bvsge", "bvuge")
		case "+":
			return res("(bvadd " + a.S + " " + b.S + ")")
		case "-":
			return res("(bvsub " + a.S + " " + b.S + ")")
		case "*":
			return res("(bvmul " + a.S + " " + b.S + ")")
		case "/":
			if signed {
				return res("(bvsdiv " + a.S + " " + b.S + ")")
			}
			return res("(bvudiv " + a.S + " " + b.S + ")")
		case "%":
			if signed {
				return res("(bvsrem " + a.S + " " + b.S + ")")
			}
			return res("(bvurem " + a.S + " " + b.S + ")")
		case "&":
			return res("(bvand " + a.S + " " + b.S + ")")
		case "|":
			return res("(bvor " + a.S + " " + b.S + ")")
		case "^":
			return res("(bvxor " + a.S + " " + b.S + ")")
		case "<<":
			return res("(bvshl " + a.S + " " + b.S + ")")
		case ">>":
			if signed {
				return res("(bvashr " + a.S + " " + b.S + ")")
			}
			return res("(bvlshr " + a.S + " " + b.S + ")")
		}
		panic(evalErr("unsupported operator " + x.Op))
	}
	switch x.Op {
	case "<", "<=", ">", ">=":
		return Val{T: bt, S: "(" + x.Op + " " + a.S + " " + b.S + ")"}
	case "+", "-", "*":
		return res("(" + x.Op + " " + a.S + " " + b.S + ")")
	case "/":
		return res("(div " + a.S + " " + b.S + ")") // contract division: floor (operands should be non-negative)
	case "%":
		return res("(mod " + a.S + " " + b.S + ")")
	case "<<":
		if b.C != nil {
			return res("(* " + a.S + " " + pow2(int(b.C.Int64())).String() + ")")
		}
		return res("(* " + a.S + " (pow2 " + b.S + "))")
	case ">>":
		if b.C != nil {
			return res("(div " + a.S + " " + pow2(int(b.C.Int64())).String() + ")")
		}
	case "&":
		if b.C != nil {
			return res(g.andConst(a.S, b.C, 64))
		}
	}
	panic(evalErr("unsupported operator " + x.Op + " in int mode"))
}

func (g *Gen) evalQuant(env *Env, x *EQuant) Val {
	n := *env
	n.vars = make(map[string]Val, len(env.vars)+len(x.Vars))
	for k, v := range env.vars {
		n.vars[k] = v
	}
	var binders, guards []string
	for _, b := range x.Vars {
		t, sort := g.specType(b.Type)
		g.nfresh++
		name := fmt.Sprintf("q.%s.%d", sanitize(b.Name), g.nfresh)
		binders = append(binders, "("+name+" "+sort+")")
		v := Val{T: t, Sort: "", S: name}
		if t == nil {
			v.Sort = sort
		}
		n.vars[b.Name] = v
		if t != nil && g.mode == ModeInt && isIntType(t) && b.Type != "int" && b.Type != "int64" {
			guards = append(guards, g.inRange(t, name))
		}
	}
	g.inQuant++
	body := g.eval(&n, x.Body)
	g.inQuant--
	q, conn := "forall", "=>"
	if !x.Forall {
		q, conn = "exists", "and"
	}
	s := body.S
	if len(guards) > 0 {
		s = fmt.Sprintf("(%s (and %s true) %s)", conn, strings.Join(guards, " "), s)
	}
	if len(x.Pats) > 0 {
		var ps []string
		g.inQuant++
		for _, pe := range x.Pats {
			ps = append(ps, g.eval(&n, pe).S)
		}
		g.inQuant--
		s = fmt.Sprintf("(! %s :pattern (%s))", s, strings.Join(ps, " "))
	}
	return Val{T: types.Typ[types.Bool], S: fmt.Sprintf("(%s (%s) %s)", q, strings.Join(binders, " "), s)}
}

func (g *Gen) evalIdent(env *Env, name string) Val {
	if v, ok := env.vars[name]; ok {
		return v
	}
	if env.lookup != nil {
		if v, ok := env.lookup(name); ok {
			return v
		}
	}
	if gd, ok := g.E.contracts.Ghosts[name]; ok && gd.Kind == "var" {
		_, sort := g.specType(gd.Sort)
		h := "ghost." + name
		g.heapDecl(h, sort)
		t, _ := g.specType(gd.Sort)
		v := Val{T: t, S: g.heapGet(env.st, h)}
		if t == nil {
			v.Sort = sort
		}
		return v
	}
	// package-level constant or variable
	pkgs := []*types.Package{env.pkg}
	if env.pkg != nil {
		pkgs = append(pkgs, env.pkg.Imports()...)
	}
	for _, p := range pkgs {
		if p == nil {
			continue
		}
		if o := p.Scope().Lookup(name); o != nil {
			return g.objVal(env, o)
		}
	}
	panic(evalErr("unknown identifier " + name))
}

func (g *Gen) objVal(env *Env, o types.Object) Val {
	switch c := o.(type) {
	case *types.Const:
		if c.Val().Kind() == constant.Int {
			bi, _ := new(big.Int).SetString(c.Val().ExactString(), 10)
			t := c.Type()
			if b, ok := t.Underlying().(*types.Basic); ok && b.Info()&types.IsUntyped != 0 {
				return Val{T: types.Typ[types.UntypedInt], Untyped: true, C: bi, S: g.intLit(bi, types.Typ[types.Int])}
			}
			return Val{T: t, C: bi, S: g.intLit(bi, t)}
		}
		if c.Val().Kind() == constant.String {
			return Val{T: types.Typ[types.String], S: g.strLit(constant.StringVal(c.Val()))}
		}
		if c.Val().Kind() == constant.Bool {
			if constant.BoolVal(c.Val()) {
				return Val{T: types.Typ[types.Bool], S: "true"}
			}
			return Val{T: types.Typ[types.Bool], S: "false"}
		}
	case *types.Var:
		// global variable
		for _, p := range g.E.prog.AllPackages() {
			if p.Pkg == o.Pkg() {
				if gl, ok := p.Members[o.Name()].(interface{ Type() types.Type }); ok {
					_ = gl
				}
				if m := p.Var(o.Name()); m != nil {
					gv := g.globalVal(m)
					return g.load(env.st, gv, gv.Addr.ElemT)
				}
			}
		}
	}
	panic(evalErr("unsupported package-level object " + o.Name()))
}

// selectField resolves x.name on a Go value (struct value, pointer to struct) or a ghost field.
func (g *Gen) selectField(env *Env, base Val, name string) Val {
	if gd, ok := g.E.contracts.Ghosts[name]; ok && gd.Kind == "field" {
		return g.ghostField(env, gd, base)
	}
	if base.T == nil {
		panic(evalErr("field " + name + " of a value without Go type"))
	}
	t := base.T
	var pkg *types.Package
	if n, ok := derefNamed(t); ok && n.Obj().Pkg() != nil {
		pkg = n.Obj().Pkg()
	}
	obj, path, _ := types.LookupFieldOrMethod(t, true, pkg, name)
	if obj == nil {
		panic(evalErr(fmt.Sprintf("no field %s in %s", name, t)))
	}
	if _, ok := obj.(*types.Var); !ok {
		panic(evalErr(fmt.Sprintf("%s is not a field of %s", name, t)))
	}
	cur := base
	for _, i := range path {
		cur = g.fieldStep(env, cur, i)
	}
	return cur
}

func derefNamed(t types.Type) (*types.Named, bool) {
	if p, ok := t.Underlying().(*types.Pointer); ok {
		t = p.Elem()
	}
	n, ok := types.Unalias(t).(*types.Named)
	return n, ok
}

// fieldStep selects field i. A pointer to struct stays a reference for embedded structs.
func (g *Gen) fieldStep(env *Env, cur Val, i int) Val {
	if cur.Addr != nil {
		a := *cur.Addr
		st := a.ElemT
		f := st.Underlying().(*types.Struct).Field(i)
		a.Path = append(append([]pathStep(nil), a.Path...), pathStep{st, i})
		a.ElemT = f.Type()
		if _, isStruct := f.Type().Underlying().(*types.Struct); isStruct {
			return Val{T: types.NewPointer(f.Type()), S: "1", Addr: &a}
		}
		return g.load(env.st, Val{T: types.NewPointer(f.Type()), Addr: &a}, f.Type())
	}
	if p, ok := cur.T.Underlying().(*types.Pointer); ok {
		st := p.Elem()
		f := st.Underlying().(*types.Struct).Field(i)
		if _, isStruct := f.Type().Underlying().(*types.Struct); isStruct {
			return Val{T: types.NewPointer(f.Type()), S: g.subRef(st, i, cur.S)}
		}
		h := g.fieldHeap(st, i)
		term := fmt.Sprintf("(select %s %s)", g.heapGet(env.st, h), cur.S)
		if g.inQuant == 0 && g.cur != nil {
			// a well-typed heap holds only values of the field's type; references in it denote allocated objects
			key := "fldrange:" + term
			if !g.declared[key] {
				g.declared[key] = true
				if g.mode == ModeInt && isIntType(f.Type()) {
					g.asm = append(g.asm, g.inRange(f.Type(), term))
				} else if !isIntType(f.Type()) {
					if r := g.rangeOf(f.Type(), term, env.st); r != "true" {
						g.asm = append(g.asm, r)
					}
				}
			}
		}
		return Val{T: f.Type(), S: term}
	}
	if st, ok := cur.T.Underlying().(*types.Struct); ok {
		f := st.Field(i)
		return Val{T: f.Type(), S: fmt.Sprintf("(%s.%s %s)", g.structSort(cur.T), sanitize(f.Name()), cur.S)}
	}
	panic(evalErr(fmt.Sprintf("field selection on %s", cur.T)))
}

func (g *Gen) ghostHeap(gd *GhostDecl) (heap, owner, valSort string, valT types.Type) {
	_, owner = g.specType(gd.Owner)
	valT, valSort = g.specType(gd.Sort)
	heap = "ghost." + gd.Name
	g.heapDecl(heap, "(Array "+owner+" "+valSort+")")
	return
}

func (g *Gen) ghostField(env *Env, gd *GhostDecl, base Val) Val {
	heap, owner, valSort, valT := g.ghostHeap(gd)
	if base.Addr != nil {
		panic(evalErr("ghost field of a symbolic address"))
	}
	base = g.ghostOwner(base, owner)
	if base.sort(g) != owner {
		panic(evalErr(fmt.Sprintf("ghost field %s: owner sort %s, got %s", gd.Name, owner, base.sort(g))))
	}
	v := Val{T: valT, S: fmt.Sprintf("(select %s %s)", g.heapGet(env.st, heap), base.S)}
	if valT == nil {
		v.Sort = valSort
	}
	return v
}

// ghostOwner: a ghost field owned by references, accessed through an interface value, belongs to
// the object the interface holds (iface.ref).
func (g *Gen) ghostOwner(base Val, owner string) Val {
	if owner == "Int" && base.sort(g) == "Iface" {
		g.uf("iface.ref", []string{"Iface"}, "Int")
		return Val{Sort: "Int", S: "(iface.ref " + base.S + ")"}
	}
	return base
}

func (g *Gen) evalIndex(env *Env, x *EIndex) Val {
	base := g.eval(env, x.X)
	idx := g.eval(env, x.I)
	if base.T != nil {
		switch bt := base.T.Underlying().(type) {
		case *types.Slice:
			h := g.arrHeap(bt.Elem())
			return Val{T: bt.Elem(), S: g.slElem(bt.Elem(), fmt.Sprintf("(select %s (sl.ref %s))", g.heapGet(env.st, h), base.S), "(sl.off "+base.S+")", g.asIdx(idx))}
		case *types.Map:
			idx, _ = g.unifyTo(idx, bt.Key())
			dom, val := g.mapHeaps(bt)
			return Val{T: bt.Elem(), S: fmt.Sprintf("(ite (and (not (= %s 0)) (select (select %s %s) %s)) (select (select %s %s) %s) %s)", base.S, g.heapGet(env.st, dom), base.S, idx.S, g.heapGet(env.st, val), base.S, idx.S, g.zero(bt.Elem()))}
		case *types.Array:
			return Val{T: bt.Elem(), S: fmt.Sprintf("(select %s %s)", base.S, g.asIdx(idx))}
		case *types.Basic:
			if isString(base.T) {
				return Val{T: types.Typ[types.Uint8], S: fmt.Sprintf("(s.at %s %s)", base.S, g.asIdx(idx))}
			}
		}
	}
	if strings.HasPrefix(base.Sort, "(Array ") {
		// spec array: element sort is the last component
		es := arrayElemSort(base.Sort)
		v := Val{Sort: es, S: fmt.Sprintf("(select %s %s)", base.S, idx.S)}
		if et, ok := g.seqElem[base.Sort]; ok {
			return Val{T: et, S: v.S}
		}
		if es == g.sortOf(types.Typ[types.Uint8]) && strings.Contains(base.Sort, g.idxSort()) {
			v.T, v.Sort = types.Typ[types.Uint8], ""
		}
		return v
	}
	panic(evalErr(fmt.Sprintf("cannot index %s", x.X)))
}

func arrayElemSort(s string) string {
	// "(Array A B)" -> B, honoring nesting
	inner := strings.TrimSuffix(strings.TrimPrefix(s, "(Array "), ")")
	depth := 0
	for i, ch := range inner {
		switch ch {
		case '(':
			depth++
		case ')':
			depth--
		case ' ':
			if depth == 0 {
				return inner[i+1:]
			}
		}
	}
	return inner
}

// asIdx converts an integer contract value to the index sort.
func (g *Gen) asIdx(v Val) string {
	if g.mode == ModeBV && !v.Untyped && v.T != nil && isIntType(v.T) {
		return g.convertInt(v, types.Typ[types.Int])
	}
	return v.S
}

func (g *Gen) unifyTo(v Val, t types.Type) (Val, bool) {
	if v.Untyped && v.C != nil && isIntType(t) {
		return Val{T: t, C: v.C, S: g.intLit(v.C, t)}, true
	}
	return v, false
}

func (g *Gen) evalSlice(env *Env, x *ESlice) Val {
	base := g.eval(env, x.X)
	if base.T != nil && isString(base.T) {
		lo := g.idxLit(0)
		if x.Lo != nil {
			lo = g.asIdx(g.eval(env, x.Lo))
		}
		hi := "(s.len " + base.S + ")"
		if x.Hi != nil {
			hi = g.asIdx(g.eval(env, x.Hi))
		}
		save := g.cur
		v := g.substrPure(base.S, lo, hi)
		g.cur = save
		return v
	}
	if base.T != nil {
		if _, ok := base.T.Underlying().(*types.Slice); ok {
			lo := g.idxLit(0)
			if x.Lo != nil {
				lo = g.asIdx(g.eval(env, x.Lo))
			}
			hi := "(sl.len " + base.S + ")"
			if x.Hi != nil {
				hi = g.asIdx(g.eval(env, x.Hi))
			}
			return Val{T: base.T, S: fmt.Sprintf("(mk-slice (sl.ref %s) %s %s %s)", base.S, g.add("(sl.off "+base.S+")", lo), g.sub(hi, lo), g.sub("(sl.cap "+base.S+")", lo))}
		}
	}
	panic(evalErr("cannot slice " + x.X.String()))
}

// substrWhole: slicing a string over its whole length gives the string itself.
func (g *Gen) substrWhole() {
	if !g.declared["ax:s.sub.whole"] && g.mode == ModeInt {
		g.declared["ax:s.sub.whole"] = true
		g.emit("(assert (forall ((s Str)) (! (= (s.sub s 0 (s.len s)) s) :pattern ((s.sub s 0 (s.len s))))))")
	}
}

// substrPure: substring term whose defining facts are global axioms (quantified over the arguments),
// so that it may appear under quantifiers in contracts.
func (g *Gen) substrPure(s, lo, hi string) Val {
	g.uf("s.sub", []string{"Str", g.idxSort(), g.idxSort()}, "Str")
	if !g.declared["ax:s.sub"] && g.mode == ModeInt {
		g.declared["ax:s.sub"] = true
		g.emit("(assert (forall ((s Str) (a Int) (b Int)) (! (=> (and (<= 0 a) (<= a b) (<= b (s.len s))) (= (s.len (s.sub s a b)) (- b a))) :pattern ((s.sub s a b)))))")
		g.emit("(assert (forall ((s Str) (a Int) (b Int) (i Int)) (! (=> (and (<= 0 a) (<= a b) (<= b (s.len s)) (<= 0 i) (< i (- b a))) (= (s.at (s.sub s a b) i) (s.at s (+ a i)))) :pattern ((s.at (s.sub s a b) i)))))")
	}
	g.substrWhole()
	return Val{T: types.Typ[types.String], S: fmt.Sprintf("(s.sub %s %s %s)", s, lo, hi)}
}

func (g *Gen) evalCall(env *Env, x *ECall) Val {
	bt := types.Typ[types.Bool]
	switch x.Fun {
	case "old":
		n := *env
		n.st = env.old
		if n.st == nil {
			n.st = g.entry
		}
		return g.eval(&n, x.Args[0])
	case "len", "cap":
		v := g.eval(env, x.Args[0])
		it := types.Typ[types.Int]
		if v.T != nil {
			switch vt := v.T.Underlying().(type) {
			case *types.Slice:
				if x.Fun == "len" {
					return Val{T: it, S: "(sl.len " + v.S + ")"}
				}
				return Val{T: it, S: "(sl.cap " + v.S + ")"}
			case *types.Basic:
				if isString(v.T) {
					return Val{T: it, S: "(s.len " + v.S + ")"}
				}
			case *types.Map:
				dom, _ := g.mapHeaps(vt)
				if g.mode != ModeInt {
					panic(evalErr("len(map) in bv mode"))
				}
				domT := fmt.Sprintf("(select %s %s)", g.heapGet(env.st, dom), v.S)
				if g.inQuant == 0 {
					// a map without an entry (for any key of its key type) has size 0: the fact that lets "nothing is
					// left" conclude "len == 0" (the converse is stated where the program takes len(m))
					ks := g.sortOf(vt.Key())
					g.assume(fmt.Sprintf("(=> (forall ((k %s)) (=> %s (not (select %s k)))) (= (%s %s) 0))", ks, g.rangeOf(vt.Key(), "k", env.st), domT, g.mapCard(vt), domT))
				}
				return Val{T: it, S: fmt.Sprintf("(ite (= %s 0) 0 (%s %s))", v.S, g.mapCard(vt), domT)}
			case *types.Array:
				return Val{T: it, C: big.NewInt(vt.Len()), S: g.idxLit(vt.Len())}
			}
		}
		panic(evalErr("len of " + x.Args[0].String()))
	case "has":
		m := g.eval(env, x.Args[0])
		mt, ok := m.T.Underlying().(*types.Map)
		if !ok {
			panic(evalErr("has() needs a map"))
		}
		k := g.eval(env, x.Args[1])
		k, _ = g.unifyTo(k, mt.Key())
		dom, _ := g.mapHeaps(mt)
		return Val{T: bt, S: fmt.Sprintf("(and (not (= %s 0)) (select (select %s %s) %s))", m.S, g.heapGet(env.st, dom), m.S, k.S)}
	case "domain":
		m := g.eval(env, x.Args[0])
		mt := m.T.Underlying().(*types.Map)
		dom, _ := g.mapHeaps(mt)
		return Val{Sort: "(Array " + g.sortOf(mt.Key()) + " Bool)", S: fmt.Sprintf("(select %s %s)", g.heapGet(env.st, dom), m.S)}
	case "fresh":
		v := g.eval(env, x.Args[0])
		ref := v.S
		if v.sort(g) == "Slice" {
			ref = "(sl.ref " + v.S + ")"
		}
		oldSt := env.old
		if oldSt == nil {
			oldSt = g.entry
		}
		return Val{T: bt, S: fmt.Sprintf("(and (>= %s %s) (< %s %s) (= (ref.root %s) %s))", ref, g.heapGet(oldSt, "$alloc"), ref, g.heapGet(env.st, "$alloc"), ref, ref)}
	case "allocated":
		// allocated(x): the object x refers to exists in the state the expression is evaluated in (a well-typed heap
		// holds only such references); lets a contract separate existing objects from ones allocated later
		v := g.eval(env, x.Args[0])
		ref := v.S
		if v.sort(g) == "Slice" {
			ref = "(sl.ref " + v.S + ")"
		}
		return Val{T: bt, S: fmt.Sprintf("(< %s %s)", ref, g.heapGet(env.st, "$alloc"))}
	case "nonnil":
		var parts []string
		for _, a := range x.Args {
			v := g.eval(env, a)
			switch v.sort(g) {
			case "Iface":
				parts = append(parts, "(not (= "+v.S+" iface.nil))")
			case "Slice":
				parts = append(parts, "(not (= (sl.ref "+v.S+") 0))")
			default:
				if v.Addr != nil {
					continue
				}
				parts = append(parts, "(not (= "+v.S+" 0))")
			}
		}
		return Val{T: bt, S: "(and " + strings.Join(parts, " ") + " true)"}
	case "min", "max":
		a, b := g.eval(env, x.Args[0]), g.eval(env, x.Args[1])
		a, b = g.unify(a, b)
		c := g.evalBinary(env.with("$a", a).with("$b", b), &EBinary{"<=", &EIdent{"$a"}, &EIdent{"$b"}})
		if x.Fun == "min" {
			return Val{T: a.T, S: fmt.Sprintf("(ite %s %s %s)", c.S, a.S, b.S)}
		}
		return Val{T: a.T, S: fmt.Sprintf("(ite %s %s %s)", c.S, b.S, a.S)}
	case "boxed":
		// boxed(x): the interface value the program gets when it converts the Go value x to an interface type
		// (errors.Is(err, packets.CodeSuccessIgnore) boxes the constant): the same term MakeInterface produces
		v := g.eval(env, x.Args[0])
		if v.T == nil {
			panic(evalErr("boxed() needs a Go value"))
		}
		if v.sort(g) == "Iface" {
			return v
		}
		return g.makeInterface(v, types.NewInterfaceType(nil, nil))
	case "strcontains":
		// strcontains(s, sub): uninterpreted unless the lemma runs with strings=native (then str.contains)
		a, b := g.eval(env, x.Args[0]), g.eval(env, x.Args[1])
		f := g.uf("s.contains", []string{"Str", "Str"}, "Bool")
		return Val{T: types.Typ[types.Bool], S: fmt.Sprintf("(%s %s %s)", f, a.S, b.S)}
	case "str":
		// str(b): the string with the bytes of slice b (the term the engine uses for the conversion string(b))
		v := g.eval(env, x.Args[0])
		if v.T != nil && isString(v.T) {
			return Val{T: types.Typ[types.String], S: v.S}
		}
		if v.T == nil {
			panic(evalErr("str() needs a byte slice"))
		}
		if _, ok := v.T.Underlying().(*types.Slice); !ok {
			panic(evalErr("str() needs a byte slice"))
		}
		eh := g.arrHeap(types.Typ[types.Uint8])
		f := g.uf("s.ofbytes", []string{"(Array " + g.idxSort() + " " + g.sortOf(types.Typ[types.Uint8]) + ")", g.idxSort(), g.idxSort()}, "Str")
		return Val{T: types.Typ[types.String], S: fmt.Sprintf("(%s (select %s (sl.ref %s)) (sl.off %s) (sl.len %s))", f, g.heapGet(env.st, eh), v.S, v.S, v.S)}
	case "refof":
		// the object reference an interface value holds
		v := g.eval(env, x.Args[0])
		if v.sort(g) != "Iface" {
			return v
		}
		g.uf("iface.ref", []string{"Iface"}, "Int")
		return Val{Sort: "Int", S: "(iface.ref " + v.S + ")"}
	case "zerovalue":
		t, sort := g.specType(x.Args[0].(*EStr).S)
		if t == nil {
			panic(evalErr("zerovalue of a non-Go type " + sort))
		}
		return Val{T: t, S: g.zero(t)}
	case "unboxas":
		// unboxas(x, "pkg.Type"): the value an interface holds, read as that (non-interface) type; meaningful under typeis(x, "pkg.Type")
		v := g.eval(env, x.Args[0])
		t, sort := g.specType(x.Args[1].(*EStr).S)
		if t == nil {
			panic(evalErr("unboxas: unknown type " + x.Args[1].(*EStr).S))
		}
		_, id := g.typeTag(t)
		g.uf("box."+id, []string{sort}, "Iface")
		unbox := g.uf("unbox."+id, []string{"Iface"}, sort)
		return Val{T: t, S: fmt.Sprintf("(%s %s)", unbox, v.S)}
	case "typeis":
		// typeis(x, "pkg.Type")
		v := g.eval(env, x.Args[0])
		name := x.Args[1].(*EStr).S
		for i, id := range g.typeTags {
			if id == sanitize(name) {
				return Val{T: bt, S: fmt.Sprintf("(= (iface.type %s) %d)", v.S, i+1)}
			}
		}
		g.typeTags = append(g.typeTags, sanitize(name))
		return Val{T: bt, S: fmt.Sprintf("(= (iface.type %s) %d)", v.S, len(g.typeTags))}
	}
	if t, ok := specTypes[x.Fun]; ok && len(x.Args) == 1 && isIntType(t) {
		v := g.eval(env, x.Args[0])
		if v.Untyped && v.C != nil {
			return Val{T: t, C: v.C, S: g.intLit(v.C, t)}
		}
		if v.T == nil || !isIntType(v.T) {
			panic(evalErr("conversion of non-integer"))
		}
		if v.Untyped {
			v.T = types.Typ[types.Int]
		}
		return Val{T: t, S: g.convertInt(v, t)}
	}
	if x.Fun == "mathint" && len(x.Args) == 1 {
		v := g.eval(env, x.Args[0])
		return Val{T: types.Typ[types.UntypedInt], Untyped: true, S: v.S}
	}
	if gd, ok := g.E.contracts.Ghosts[x.Fun]; ok && gd.Kind == "field" && len(x.Args) == 1 {
		return g.ghostField(env, gd, g.eval(env, x.Args[0]))
	}
	if d, ok := g.E.contracts.Defs[x.Fun]; ok {
		if len(d.Params) != len(x.Args) {
			panic(evalErr("arity mismatch calling " + x.Fun))
		}
		if env.depth > 20 {
			panic(evalErr("definition expansion too deep: " + x.Fun))
		}
		n := &Env{vars: map[string]Val{}, st: env.st, old: env.old, pkg: env.pkg, depth: env.depth + 1}
		for i, p := range d.Params {
			n.vars[p.Name] = g.eval(env, x.Args[i])
		}
		return g.eval(n, d.Body)
	}
	switch x.Fun {
	case "backing":
		v := g.eval(env, x.Args[0])
		sl := v.T.Underlying().(*types.Slice)
		return Val{Sort: "(Array " + g.idxSort() + " " + g.sortOf(sl.Elem()) + ")", S: fmt.Sprintf("(select %s (sl.ref %s))", g.heapGet(env.st, g.arrHeap(sl.Elem())), v.S)}
	case "offset":
		v := g.eval(env, x.Args[0])
		return Val{T: types.Typ[types.Int], S: "(sl.off " + v.S + ")"}
	}
	if sf, ok := g.E.contracts.Specs[x.Fun]; ok {
		if len(sf.Params) != len(x.Args) {
			panic(evalErr("arity mismatch calling spec function " + x.Fun))
		}
		var args []string
		var sorts []string
		for i, a := range x.Args {
			v := g.eval(env, a)
			pt, ps := g.specType(sf.Params[i])
			if pt != nil && isIntType(pt) {
				if nv, ok := g.unifyTo(v, pt); ok {
					v = nv
				} else if g.mode == ModeBV && v.T != nil && isIntType(v.T) && !v.Untyped {
					v = Val{T: pt, S: g.convertInt(v, pt)}
				}
			}
			if v.T != nil && v.T == types.Typ[types.UntypedNil] {
				v = Val{Sort: ps, S: "0"}
			}
			args = append(args, v.S)
			sorts = append(sorts, ps)
		}
		rt, rs := g.specType(sf.Result)
		if !g.E.specDefined(x.Fun, g.mode) {
			g.uf(x.Fun, sorts, rs)
		}
		v := Val{T: rt, S: "(" + x.Fun + " " + strings.Join(args, " ") + ")"}
		if len(args) == 0 {
			v.S = x.Fun
		}
		if rt == nil {
			v.Sort = rs
		}
		return v
	}
	panic(evalErr("unknown function " + x.Fun))
}

var _ = token.ADD
