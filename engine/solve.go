package main

import (
	"bytes"
	"context"
	"fmt"
	"os"
	"os/exec"
	"path/filepath"
	"regexp"
	"strconv"
	"strings"
	"sync"
	"time"
)

type solverSpec struct {
	name string
	args func(file string, timeoutMs int) []string
}

var solvers = []solverSpec{
	{"z3-new 5.1.0", func(f string, ms int) []string { return []string{"z3-new", fmt.Sprintf("-t:%d", ms), f} }},
	{"cvc5 1.0", func(f string, ms int) []string {
		// --strings-exp: extended string functions (str.contains, str.to_code) in the native-string lemmas
		return []string{"cvc5", fmt.Sprintf("--tlimit=%d", ms), "--produce-models", "--strings-exp", f}
	}},
	{"z3 4.8.12", func(f string, ms int) []string { return []string{"z3", fmt.Sprintf("-t:%d", ms), f} }},
}

func (o *Obl) query(withModel bool) string {
	g := o.gen
	var sb strings.Builder
	if withModel {
		sb.WriteString("(set-option :produce-models true)\n")
	}
	sb.WriteString("(set-logic ALL)\n")
	sb.WriteString(g.prelude())
	sb.WriteString(g.out.String()[:o.PrefixN])
	for _, a := range g.asm[:o.AsmN] {
		sb.WriteString("(assert " + a + ")\n")
	}
	sb.WriteString("(assert " + o.Reach + ")\n")
	if !o.Cover {
		sb.WriteString("(assert (not " + o.Goal + "))\n")
	}
	sb.WriteString("(check-sat)\n")
	if withModel {
		sb.WriteString("(get-model)\n")
	}
	if g.nativeStr {
		return nativeStrings(sb.String())
	}
	return sb.String()
}

var litDeclRe = regexp.MustCompile(`^\(declare-const (lit\.\d+) Str\) ; (".*")$`)

// nativeStrings rewrites a query so that the sort Str is the SMT-LIB theory of strings: length, character access,
// concatenation, containment, substring and literals get their meaning instead of being uninterpreted.  Only for
// lemmas over spec functions (strings=native): the solvers' string procedures do not mix well with the quantified
// heap axioms of function obligations.  Go strings are byte sequences, SMT-LIB strings are code-point sequences; the
// lemmas this is used for (key injectivity) do not depend on the difference.
func nativeStrings(q string) string {
	var out []string
	for _, line := range strings.Split(q, "\n") {
		switch {
		case strings.HasPrefix(line, "(declare-sort Str 0)"):
			line = strings.Replace(line, "(declare-sort Str 0)", "(define-sort Str () String)", 1)
		case strings.HasPrefix(line, "(declare-fun s.len (Str)"):
			// the prelude line declares s.len and s.at together
			line = "(define-fun s.len ((s Str)) Int (str.len s))\n(define-fun s.at ((s Str) (i Int)) Int (str.to_code (str.at s i)))"
		case strings.HasPrefix(line, "(declare-fun s.at (Str"):
			continue
		case strings.HasPrefix(line, "(declare-fun s.concat (Str Str) Str)"):
			line = "(define-fun s.concat ((a Str) (b Str)) Str (str.++ a b))"
		case strings.HasPrefix(line, "(declare-fun s.contains (Str Str) Bool)"):
			line = "(define-fun s.contains ((a Str) (b Str)) Bool (str.contains a b))"
		case strings.HasPrefix(line, "(declare-fun s.less (Str Str) Bool)"):
			line = "(define-fun s.less ((a Str) (b Str)) Bool (str.< a b))"
		case strings.HasPrefix(line, "(declare-fun s.sub (Str Int Int) Str)"):
			line = "(define-fun s.sub ((s Str) (a Int) (b Int)) Str (str.substr s a (- b a)))"
		default:
			if m := litDeclRe.FindStringSubmatch(line); m != nil {
				if s, err := strconv.Unquote(m[2]); err == nil {
					var sb strings.Builder
					for _, c := range []byte(s) {
						switch {
						case c == '"':
							sb.WriteString(`""`)
						case c >= 0x20 && c < 0x7f && c != '\\':
							sb.WriteByte(c)
						default:
							fmt.Fprintf(&sb, `\u{%x}`, c)
						}
					}
					line = fmt.Sprintf("(define-fun %s () Str \"%s\")", m[1], sb.String())
				}
			}
		}
		out = append(out, line)
	}
	return strings.Join(out, "\n")
}

type solveResult struct {
	verdict string // unsat sat unknown timeout error
	backend string
	ms      int64
	out     string
}

func runSolver(ctx context.Context, sp solverSpec, file string, timeoutMs int) solveResult {
	args := sp.args(file, timeoutMs)
	cctx, cancel := context.WithTimeout(ctx, time.Duration(timeoutMs+2000)*time.Millisecond)
	defer cancel()
	cmd := exec.CommandContext(cctx, args[0], args[1:]...)
	var out bytes.Buffer
	cmd.Stdout = &out
	cmd.Stderr = &out
	t0 := time.Now()
	_ = cmd.Run()
	ms := time.Since(t0).Milliseconds()
	s := out.String()
	first := ""
	for _, line := range strings.Split(s, "\n") {
		// z3 prints warnings (a pattern it cannot use is ignored, not an error) before the verdict
		if t := strings.TrimSpace(line); t != "" && !strings.HasPrefix(t, "WARNING") {
			first = t
			break
		}
	}
	r := solveResult{backend: sp.name, ms: ms, out: s}
	switch first {
	case "unsat", "sat", "unknown":
		r.verdict = first
	case "timeout":
		r.verdict = "timeout"
	default:
		if cctx.Err() != nil {
			r.verdict = "timeout"
		} else if strings.Contains(s, "timeout") || strings.Contains(s, "interrupted") {
			r.verdict = "timeout"
		} else {
			r.verdict = "error"
		}
	}
	return r
}

// race runs the solvers on one file, first definite answer wins.
func race(file string, timeoutMs int, which []solverSpec) (solveResult, []solveResult) {
	ctx, cancel := context.WithCancel(context.Background())
	defer cancel()
	ch := make(chan solveResult, len(which))
	for _, sp := range which {
		go func(sp solverSpec) { ch <- runSolver(ctx, sp, file, timeoutMs) }(sp)
	}
	var all []solveResult
	var best solveResult
	for i := 0; i < len(which); i++ {
		r := <-ch
		all = append(all, r)
		if r.verdict == "unsat" || r.verdict == "sat" {
			return r, all
		}
		if best.verdict == "" || best.verdict == "error" {
			best = r
		}
	}
	return best, all
}

type SolveStats struct {
	mu        sync.Mutex
	ByBackend map[string]int
	TotalMs   int64
}

// Discharge decides all obligations, in parallel.
func Discharge(obls []*Obl, workDir string, quickMs, fullMs int, par int, stats *SolveStats) {
	sem := make(chan struct{}, par)
	var wg sync.WaitGroup
	for i, o := range obls {
		wg.Add(1)
		sem <- struct{}{}
		go func(i int, o *Obl) {
			defer wg.Done()
			defer func() { <-sem }()
			dischargeOne(o, filepath.Join(workDir, fmt.Sprintf("o%04d.smt2", i)), quickMs, fullMs, stats)
		}(i, o)
	}
	wg.Wait()
}

func dischargeOne(o *Obl, file string, quickMs, fullMs int, stats *SolveStats) {
	q := o.query(false)
	if err := os.WriteFile(file, []byte(q), 0o644); err != nil {
		o.Status, o.Raw = "undecided", err.Error()
		return
	}
	t0 := time.Now()
	if o.Short {
		// recorded finding: it is expected not to discharge, so do not spend the full budget on it
		if fullMs > 6000 {
			fullMs = 6000
		}
	}
	if o.Cover && fullMs > 8000 {
		// vacuity guards only have to fail to find a contradiction: no need for the long budget
		fullMs = 8000
	}
	// stage 1: the newest z3 alone, short budget
	r := runSolver(context.Background(), solvers[0], file, quickMs)
	var all []solveResult
	if r.verdict != "unsat" && r.verdict != "sat" {
		r, all = race(file, fullMs, solvers)
	}
	o.Ms = time.Since(t0).Milliseconds()
	o.Backend = r.backend
	want, bad := "unsat", "sat"
	if o.Cover {
		want, bad = "sat", "unsat"
	}
	switch r.verdict {
	case want:
		o.Status = "discharged"
	case bad:
		o.Status = "failed"
		o.Raw = r.out
		if !o.Cover {
			// fetch a model
			mf := strings.TrimSuffix(file, ".smt2") + ".model.smt2"
			os.WriteFile(mf, []byte(o.query(true)), 0o644)
			mr := runSolver(context.Background(), solvers[0], mf, fullMs)
			if mr.verdict == "sat" {
				o.Model = mr.out
			} else {
				mr = runSolver(context.Background(), solvers[2], mf, fullMs)
				if mr.verdict == "sat" {
					o.Model = mr.out
				}
			}
		}
	default:
		if o.Cover {
			// "unknown" on a cover query means no contradiction was found: acceptable
			o.Status = "discharged"
			o.Backend = r.backend + " (not unsat)"
		} else {
			o.Status = "undecided"
			var parts []string
			for _, x := range all {
				parts = append(parts, fmt.Sprintf("%s: %s (%d ms)", x.backend, x.verdict, x.ms))
			}
			o.Raw = strings.Join(parts, "; ")
			if len(all) == 0 {
				o.Raw = fmt.Sprintf("%s: %s %s", r.backend, r.verdict, firstLines(r.out, 3))
			} else if r.verdict == "error" {
				o.Raw += " | " + firstLines(r.out, 3)
			}
		}
	}
	if stats != nil {
		stats.mu.Lock()
		stats.ByBackend[o.Backend]++
		stats.TotalMs += o.Ms
		stats.mu.Unlock()
	}
}

func firstLines(s string, n int) string {
	ls := strings.Split(strings.TrimSpace(s), "\n")
	if len(ls) > n {
		ls = ls[:n]
	}
	return strings.Join(ls, " / ")
}
