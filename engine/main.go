package main

import (
	"fmt"
	"golang.org/x/tools/go/packages"
	"golang.org/x/tools/go/ssa"
	"golang.org/x/tools/go/ssa/ssautil"
)

func main() {
	cfg := &packages.Config{Mode: packages.LoadSyntax, Dir: "/repo", BuildFlags: []string{"-tags=verif"}}
	pkgs, err := packages.Load(cfg, "./packets")
	if err != nil {
		panic(err)
	}
	prog, sp := ssautil.Packages(pkgs, ssa.GlobalDebug|ssa.BareInits)
	prog.Build()
	fmt.Println(len(sp), sp[0].Pkg.Path())
}
