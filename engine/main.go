package main

import (
	"encoding/json"
	"flag"
	"fmt"
	"os"
	"path/filepath"
	"regexp"
	"sort"
	"strconv"
	"strings"
	"time"
)

type FuncSel struct {
	Key    string   `json:"key"`
	Select []string `json:"select,omitempty"` // globs over "kind:label"; default all
	Skip   []string `json:"skip,omitempty"`
	Why    string   `json:"why,omitempty"`
}

type PropConfig struct {
	ID          string    `json:"id"`
	Title       string    `json:"title"`
	Packages    []string  `json:"packages"`
	Functions   []FuncSel `json:"functions"`
	Lemmas      []string  `json:"lemmas,omitempty"`
	NotDecided  []string  `json:"not_decided,omitempty"`
	Assumptions []string  `json:"assumptions,omitempty"`
	Bounded     []string  `json:"bounded,omitempty"`
	Contracts   []string  `json:"contracts,omitempty"` // extra trusted contract files
	// LockDiscipline: this property claims the lock-discipline preconditions (labels C32-...: "the lock is not
	// held by this goroutine"). In every other property those call-site obligations are left to the C32 check.
	LockDiscipline bool `json:"lock_discipline,omitempty"`
}

var lockDiscipline bool

func globMatch(pat, s string) bool {
	re := "^" + strings.ReplaceAll(regexp.QuoteMeta(pat), `\*`, ".*") + "$"
	ok, _ := regexp.MatchString(re, s)
	return ok
}

func selected(fs FuncSel, o *Obl) bool {
	kind := o.Kind
	if kind == "probe" {
		kind = "post" // the probe of a masked postcondition goes wherever the postcondition goes
	}
	tag := kind + ":" + o.Label
	if !lockDiscipline && kind == "pre" && strings.Contains(o.Label, ":C32-") {
		return false
	}
	for _, p := range fs.Skip {
		if globMatch(p, tag) {
			return false
		}
	}
	if len(fs.Select) == 0 {
		return true
	}
	for _, p := range fs.Select {
		if globMatch(p, tag) {
			return true
		}
	}
	return false
}

func main() {
	if len(os.Args) < 2 {
		fmt.Fprintln(os.Stderr, "usage: vcheck check <prop.json> | dump <pkgpattern> <key>")
		os.Exit(2)
	}
	switch os.Args[1] {
	case "check":
		os.Exit(cmdCheck(os.Args[2:]))
	case "dump":
		os.Exit(cmdDump(os.Args[2:]))
	default:
		fmt.Fprintln(os.Stderr, "unknown command")
		os.Exit(2)
	}
}

func verifRoot() string {
	if r := os.Getenv("VERIF_ROOT"); r != "" {
		return r
	}
	return "/verif"
}

func repoRoot() string {
	if r := os.Getenv("VERIF_REPO"); r != "" {
		return r
	}
	return "/repo"
}

func trustedFiles(extra []string) []string {
	fs, _ := filepath.Glob(filepath.Join(verifRoot(), "spec", "*.contracts"))
	sort.Strings(fs)
	return append(fs, extra...)
}

func cmdDump(args []string) int {
	fl := flag.NewFlagSet("dump", flag.ExitOnError)
	smt := fl.Bool("smt", false, "print full SMT of each obligation")
	only := fl.String("only", "", "substring filter on obligation names")
	solve := fl.Bool("solve", true, "discharge")
	fl.Parse(args)
	rest := fl.Args()
	if len(rest) < 2 {
		fmt.Fprintln(os.Stderr, "dump <pkgpattern,...> <key>...")
		return 2
	}
	E, err := LoadEngine(repoRoot(), strings.Split(rest[0], ","), trustedFiles(nil))
	if err != nil {
		fmt.Fprintln(os.Stderr, err)
		return 2
	}
	rc := 0
	for _, key := range rest[1:] {
		fn := E.funcs[key]
		if fn == nil {
			fmt.Fprintf(os.Stderr, "no function %s\n", key)
			var ks []string
			for k := range E.funcs {
				if strings.Contains(strings.ToLower(k), strings.ToLower(key[strings.LastIndex(key, ".")+1:])) {
					ks = append(ks, k)
				}
			}
			sort.Strings(ks)
			fmt.Fprintln(os.Stderr, "candidates:", ks)
			return 2
		}
		g, err := GenerateStable(E, fn, key, E.contracts.Funcs[key])
		if err != nil {
			fmt.Fprintln(os.Stderr, "error:", err)
			return 2
		}
		for _, f := range E.fatals {
			fmt.Fprintln(os.Stderr, "contract error:", f)
		}
		var obls []*Obl
		for _, o := range g.obls {
			if *only == "" || strings.Contains(o.Name, *only) {
				obls = append(obls, o)
			}
		}
		if *solve {
			dir, _ := os.MkdirTemp("", "vcheck")
			stats := &SolveStats{ByBackend: map[string]int{}}
			Discharge(obls, dir, 4000, 40000, 10, stats)
			os.RemoveAll(dir)
		}
		for _, o := range obls {
			fmt.Printf("%-10s %6dms %-14s %s   [%s]\n", o.Status, o.Ms, o.Backend, o.Name, o.Pos)
			if o.Status != "discharged" {
				rc = 1
				if o.Raw != "" {
					fmt.Println("    ", firstLines(o.Raw, 2))
				}
				if o.Model != "" {
					fmt.Println(modelSummary(o.Model, 40))
				}
			}
			if *smt {
				fmt.Println(o.query(false))
			}
		}
		for _, n := range g.notes {
			fmt.Println("note:", n)
		}
	}
	return rc
}

var defineRe = regexp.MustCompile(`(?s)\(define-fun ([^ ]+) \(\) ([^\n]+?)\n\s+(.+?)\)\n`)

// modelSummary extracts the interesting constants (parameters, havocked values) from a z3 model.
func modelSummary(model string, max int) string {
	var lines []string
	ls := strings.Split(model, "\n")
	for i := 0; i < len(ls); i++ {
		l := strings.TrimSpace(ls[i])
		if strings.HasPrefix(l, "(define-fun p.") || strings.HasPrefix(l, "(define-fun loop.") || strings.HasPrefix(l, "(define-fun ret.") {
			val := ""
			if i+1 < len(ls) {
				val = strings.TrimSpace(ls[i+1])
			}
			lines = append(lines, "      "+l+" "+val)
			if len(lines) >= max {
				break
			}
		}
	}
	return strings.Join(lines, "\n")
}

type EvidenceOut struct {
	PropertyID  string                 `json:"property_id"`
	Tier        string                 `json:"tier"`
	Seed        int                    `json:"seed"`
	Level       string                 `json:"level"`
	Coverage    map[string]interface{} `json:"coverage"`
	Assumptions []string               `json:"assumptions"`
	WallS       float64                `json:"wall_s"`
	Violations  int                    `json:"violations"`
}

func cmdCheck(args []string) int {
	fl := flag.NewFlagSet("check", flag.ExitOnError)
	tier := fl.String("tier", "quick", "quick|thorough")
	fl.Parse(args)
	if t := os.Getenv("VERIF_TIER"); t == "quick" || t == "thorough" {
		*tier = t
	}
	if fl.NArg() < 1 {
		fmt.Fprintln(os.Stderr, "check <prop.json>")
		return 2
	}
	t0 := time.Now()
	seed, _ := strconv.Atoi(os.Getenv("VERIF_SEED"))
	var cfg PropConfig
	b, err := os.ReadFile(fl.Arg(0))
	if err != nil {
		fmt.Fprintln(os.Stderr, err)
		return 2
	}
	if err := json.Unmarshal(b, &cfg); err != nil {
		fmt.Fprintln(os.Stderr, "bad property config:", err)
		return 2
	}
	res := runProperty(&cfg, *tier, seed)
	res.write(&cfg, *tier, seed, time.Since(t0).Seconds())
	return res.exit
}
