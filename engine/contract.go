package main

import (
	"bufio"
	"fmt"
	"os"
	"regexp"
	"strconv"
	"strings"
)

type Clause struct {
	Kind  string // requires ensures invariant decreases modifies assert
	Label string
	Text  string
	E     Expr
	Es    []Expr // modifies list
	Callee string // callsite clauses: the callee key the assertion is attached to
	File  string
	Line  int
}

type LoopContract struct {
	Invariants []*Clause
	Entry      []*Clause // proved when the loop is entered; not assumed at the loop head
	Decreases  *Clause
	Modifies   []*Clause
}

type FuncContract struct {
	Key       string
	Opts      map[string]string
	Requires  []*Clause
	Ensures   []*Clause
	Modifies  []*Clause
	Callsites []*Clause
	Decreases *Clause
	Loops     map[int]*LoopContract
	File      string
	Line      int
	Source    string // "repo" or "trusted"
}

type GhostDecl struct {
	Kind  string // field | var
	Name  string
	Owner string // sort name for field owner ("ref" or "iface")
	Sort  string // value sort in contract-type syntax
	ZeroFor string // Go type (typeID) whose freshly allocated objects have this ghost field zero
}

type SpecFunc struct {
	Name   string
	Params []string // contract-type names
	Result string
}

type SpecDef struct {
	Name   string
	Params []Binder
	Body   Expr
	Text   string
}

type Contracts struct {
	Defs   map[string]*SpecDef
	Funcs  map[string]*FuncContract
	Ghosts map[string]*GhostDecl
	Specs  map[string]*SpecFunc
	SMT    map[string][]string // mode ("int","bv","any") -> raw prelude lines
	Lemmas []*Lemma
	Axioms map[string]*Clause // named global axioms (verif:axiom name: expr), assumed by functions that list them under uses=
	NonNil map[string]bool // typeIDs declared never-nil (verif:nonnil)
	Frozen map[string]bool // pkg.Type.field assumed never written after construction (verif:frozen)
	Errs   []string
}

type Lemma struct {
	Name    string
	Opts    map[string]string
	Vars    []Binder
	Clauses []*Clause // requires*, ensures*
	File    string
	Line    int
}

func NewContracts() *Contracts {
	return &Contracts{Defs: map[string]*SpecDef{}, Funcs: map[string]*FuncContract{}, Ghosts: map[string]*GhostDecl{}, Specs: map[string]*SpecFunc{}, SMT: map[string][]string{}}
}

var defRe = regexp.MustCompile(`^(\w+)\((.*?)\)\s*([\w\[\]]+)?\s*=\s*(.*)$`)
var labelRe = regexp.MustCompile(`^([A-Za-z0-9_\-\.]+):\s+(.*)$`)
var clauseKinds = map[string]bool{"axiom": true, "requires": true, "ensures": true, "invariant": true, "entry": true, "decreases": true, "modifies": true, "callsite": true}

func (c *Contracts) errf(file string, line int, f string, a ...interface{}) {
	c.Errs = append(c.Errs, fmt.Sprintf("%s:%d: %s", file, line, fmt.Sprintf(f, a...)))
}

// splitTop splits on commas at paren depth 0.
func splitTop(s string) []string {
	var out []string
	depth := 0
	start := 0
	for i, ch := range s {
		switch ch {
		case '(', '[':
			depth++
		case ')', ']':
			depth--
		case ',':
			if depth == 0 {
				out = append(out, strings.TrimSpace(s[start:i]))
				start = i + 1
			}
		}
	}
	if t := strings.TrimSpace(s[start:]); t != "" {
		out = append(out, t)
	}
	return out
}

func (c *Contracts) LoadFile(path, source string) error {
	f, err := os.Open(path)
	if err != nil {
		return err
	}
	defer f.Close()
	sc := bufio.NewScanner(f)
	sc.Buffer(make([]byte, 1<<20), 1<<20)
	var curF *FuncContract
	var curL *LoopContract
	var curLemma *Lemma
	var last *Clause
	line := 0
	finish := func(cl *Clause) {
		if cl == nil {
			return
		}
		if cl.Kind == "modifies" {
			t := strings.TrimSpace(cl.Text)
			if t == "nothing" || t == "" {
				return
			}
			for _, part := range splitTop(t) {
				e, err := ParseExpr(part)
				if err != nil {
					c.errf(cl.File, cl.Line, "%v", err)
					continue
				}
				cl.Es = append(cl.Es, e)
			}
			return
		}
		e, err := ParseExpr(cl.Text)
		if err != nil {
			c.errf(cl.File, cl.Line, "%v", err)
			return
		}
		cl.E = e
	}
	for sc.Scan() {
		line++
		raw := strings.TrimSpace(sc.Text())
		if strings.HasPrefix(raw, "// verif:") {
			finish(last)
			last = nil
			fields := strings.Fields(strings.TrimPrefix(raw, "// verif:"))
			if len(fields) == 0 {
				continue
			}
			switch fields[0] {
			case "func", "ext":
				if len(fields) < 2 {
					c.errf(path, line, "verif:func needs a key")
					continue
				}
				key := fields[1]
				fc := &FuncContract{Key: key, Opts: map[string]string{}, Loops: map[int]*LoopContract{}, File: path, Line: line, Source: source}
				for _, o := range fields[2:] {
					kv := strings.SplitN(o, "=", 2)
					if len(kv) == 2 {
						fc.Opts[kv[0]] = kv[1]
					} else {
						fc.Opts[kv[0]] = "true"
					}
				}
				if fields[0] == "ext" {
					fc.Opts["trusted"] = "true"
				}
				if _, dup := c.Funcs[key]; dup {
					c.errf(path, line, "duplicate contract for %s", key)
				}
				c.Funcs[key] = fc
				curF, curL, curLemma = fc, nil, nil
			case "loop":
				if len(fields) < 3 {
					c.errf(path, line, "verif:loop needs key and ordinal")
					continue
				}
				fc := c.Funcs[fields[1]]
				if fc == nil {
					fc = &FuncContract{Key: fields[1], Opts: map[string]string{}, Loops: map[int]*LoopContract{}, File: path, Line: line, Source: source}
					c.Funcs[fields[1]] = fc
				}
				n, err := strconv.Atoi(fields[2])
				if err != nil {
					c.errf(path, line, "bad loop ordinal")
					continue
				}
				lc := &LoopContract{}
				fc.Loops[n] = lc
				curF, curL, curLemma = fc, lc, nil
			case "ghost":
				// ghost field <name> <owner> <sort> | ghost var <name> <sort>
				if len(fields) >= 5 && fields[1] == "field" {
					zf := ""
					if last := fields[len(fields)-1]; strings.HasPrefix(last, "zero:") && len(fields) >= 6 {
						zf = sanitize(strings.TrimPrefix(last, "zero:"))
						fields = fields[:len(fields)-1]
					}
					c.Ghosts[fields[2]] = &GhostDecl{Kind: "field", Name: fields[2], Owner: fields[3], Sort: strings.Join(fields[4:], " "), ZeroFor: zf}
				} else if len(fields) >= 4 && fields[1] == "var" {
					c.Ghosts[fields[2]] = &GhostDecl{Kind: "var", Name: fields[2], Sort: strings.Join(fields[3:], " ")}
				} else {
					c.errf(path, line, "bad ghost declaration")
				}
				curF, curL, curLemma = nil, nil, nil
			case "spec":
				// spec name(T1,T2) R
				rest := strings.TrimSpace(strings.TrimPrefix(raw, "// verif:spec"))
				i := strings.Index(rest, "(")
				j := strings.LastIndex(rest, ")")
				if i < 0 || j < i {
					c.errf(path, line, "bad spec declaration")
					continue
				}
				sf := &SpecFunc{Name: strings.TrimSpace(rest[:i]), Result: strings.TrimSpace(rest[j+1:])}
				for _, p := range splitTop(rest[i+1 : j]) {
					sf.Params = append(sf.Params, p)
				}
				c.Specs[sf.Name] = sf
				curF, curL, curLemma = nil, nil, nil
			case "def":
				rest := strings.TrimSpace(strings.TrimPrefix(raw, "// verif:def"))
				m := defRe.FindStringSubmatch(rest)
				if m == nil {
					c.errf(path, line, "bad def")
					continue
				}
				d := &SpecDef{Name: m[1], Text: m[4]}
				for _, p := range splitTop(m[2]) {
					fs := strings.Fields(p)
					if len(fs) >= 2 {
						d.Params = append(d.Params, Binder{fs[0], strings.Join(fs[1:], " ")})
					} else if len(fs) == 1 {
						d.Params = append(d.Params, Binder{fs[0], ""})
					}
				}
				e, err := ParseExpr(m[4])
				if err != nil {
					c.errf(path, line, "%v", err)
					continue
				}
				d.Body = e
				c.Defs[d.Name] = d
				curF, curL, curLemma = nil, nil, nil
			case "smt", "smt-int", "smt-bv":
				mode := "any"
				if fields[0] == "smt-int" {
					mode = "int"
				} else if fields[0] == "smt-bv" {
					mode = "bv"
				}
				rest := strings.TrimSpace(strings.TrimPrefix(raw, "// verif:"+fields[0]))
				c.SMT[mode] = append(c.SMT[mode], rest)
				curF, curL, curLemma = nil, nil, nil
			case "nonnil":
				// type invariant (trusted): values of this named pointer/interface type are never nil
				if len(fields) >= 2 {
					if c.NonNil == nil {
						c.NonNil = map[string]bool{}
					}
					c.NonNil[sanitize(fields[1])] = true
				}
				curF, curL, curLemma = nil, nil, nil
			case "frozen":
				// assumption (trusted): the field is configuration, not written once the object is in use
				if len(fields) >= 2 {
					if c.Frozen == nil {
						c.Frozen = map[string]bool{}
					}
					c.Frozen[fields[1]] = true
				}
				curF, curL, curLemma = nil, nil, nil
			case "axiom":
				// axiom name: <closed formula over spec functions> -- a definitional axiom (trusted, listed in evidence)
				rest := strings.TrimSpace(strings.TrimPrefix(raw, "// verif:axiom"))
				m := labelRe.FindStringSubmatch(rest)
				if m == nil {
					c.errf(path, line, "verif:axiom needs 'name: formula'")
					continue
				}
				e, err := ParseExpr(m[2])
				if err != nil {
					c.errf(path, line, "%v", err)
					continue
				}
				if c.Axioms == nil {
					c.Axioms = map[string]*Clause{}
				}
				c.Axioms[m[1]] = &Clause{Kind: "axiom", Label: m[1], Text: m[2], E: e, File: path, Line: line}
				curF, curL, curLemma = nil, nil, nil
			case "lemma":
				// lemma name [arith=..] ; then //@ vars x T, y T ; requires/ensures
				lm := &Lemma{Name: fields[1], Opts: map[string]string{}, File: path, Line: line}
				for _, o := range fields[2:] {
					kv := strings.SplitN(o, "=", 2)
					if len(kv) == 2 {
						lm.Opts[kv[0]] = kv[1]
					}
				}
				c.Lemmas = append(c.Lemmas, lm)
				curF, curL, curLemma = nil, nil, lm
			default:
				c.errf(path, line, "unknown directive verif:%s", fields[0])
			}
			continue
		}
		if !strings.HasPrefix(raw, "//@") {
			continue
		}
		body := strings.TrimPrefix(raw, "//@")
		trim := strings.TrimSpace(body)
		if trim == "" {
			continue
		}
		first := strings.Fields(trim)[0]
		if curLemma != nil && first == "vars" {
			for _, b := range splitTop(strings.TrimSpace(strings.TrimPrefix(trim, "vars"))) {
				fs := strings.Fields(b)
				if len(fs) == 2 {
					curLemma.Vars = append(curLemma.Vars, Binder{fs[0], fs[1]})
				}
			}
			continue
		}
		if !clauseKinds[first] {
			// continuation
			if last != nil {
				last.Text += " " + trim
			} else {
				c.errf(path, line, "dangling contract line")
			}
			continue
		}
		finish(last)
		rest := strings.TrimSpace(strings.TrimPrefix(trim, first))
		cl := &Clause{Kind: first, File: path, Line: line}
		if m := labelRe.FindStringSubmatch(rest); m != nil && !strings.HasPrefix(m[2], ":") && first != "modifies" {
			cl.Label = m[1]
			rest = m[2]
		}
		cl.Text = rest
		last = cl
		if curLemma != nil {
			curLemma.Clauses = append(curLemma.Clauses, cl)
			continue
		}
		if curF == nil {
			c.errf(path, line, "contract clause outside verif:func")
			continue
		}
		if curL != nil {
			switch first {
			case "invariant":
				curL.Invariants = append(curL.Invariants, cl)
			case "entry":
				curL.Entry = append(curL.Entry, cl)
			case "decreases":
				curL.Decreases = cl
			case "modifies":
				curL.Modifies = append(curL.Modifies, cl)
			default:
				c.errf(path, line, "%s not allowed in loop contract", first)
			}
			continue
		}
		switch first {
		case "requires":
			curF.Requires = append(curF.Requires, cl)
		case "ensures":
			curF.Ensures = append(curF.Ensures, cl)
		case "axiom":
			// assumed at call sites, never proved from the body (listed as an assumption in the evidence):
			// used to name a deterministic function's result by an uninterpreted spec function
			curF.Ensures = append(curF.Ensures, cl)
		case "modifies":
			curF.Modifies = append(curF.Modifies, cl)
		case "decreases":
			curF.Decreases = cl
		case "callsite":
			// callsite <calleeKey> [label:] <expr>: asserted, in the caller's scope, before every call of calleeKey
			fs := strings.Fields(cl.Text)
			if cl.Label != "" || len(fs) < 2 {
				// label was parsed from "callee label: expr"? the callee key comes first, so re-split
			}
			rest := strings.TrimSpace(strings.TrimPrefix(trim, first))
			parts := strings.SplitN(rest, " ", 2)
			if len(parts) < 2 {
				c.errf(path, line, "callsite needs a callee key and an expression")
				continue
			}
			cl.Callee = parts[0]
			cl.Label = ""
			body := strings.TrimSpace(parts[1])
			if m := labelRe.FindStringSubmatch(body); m != nil && !strings.HasPrefix(m[2], ":") {
				cl.Label = m[1]
				body = m[2]
			}
			cl.Text = body
			curF.Callsites = append(curF.Callsites, cl)
		default:
			c.errf(path, line, "%s not allowed in function contract", first)
		}
	}
	finish(last)
	return sc.Err()
}
