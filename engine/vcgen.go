package main

import (
	"fmt"
	"go/token"
	"go/types"
	"sort"
	"strings"

	"golang.org/x/tools/go/ssa"
)

// State is the symbolic state at a program point.
type State struct {
	reach  string
	store  map[string]string // heap variable -> current term (absent = entry value)
	defers []*ssa.Defer
	dead   bool
}

func (s *State) clone() *State {
	n := &State{reach: s.reach, store: make(map[string]string, len(s.store)), dead: s.dead}
	for k, v := range s.store {
		n.store[k] = v
	}
	n.defers = append([]*ssa.Defer(nil), s.defers...)
	return n
}

// Obl is one proof obligation.
type Obl struct {
	Name    string
	Kind    string // safe arith pre post inv0 inv+ dec frame cover lemma lock
	Label   string
	Func    string
	PrefixN int    // bytes of g.out that precede it
	AsmN    int    // number of assumptions that precede it
	Reach   string // condition under which the point is reached
	Goal    string
	Pos     string
	Cover   bool // must be SAT (vacuity guard)
	Short   bool // listed as an open known finding: solve with a short budget
	Masked  bool // goal is "post OR mask" of a recorded finding
	Probe   bool // the unmasked conjunct of a recorded finding (failing = finding still present)
	Text    string
	gen     *Gen
	// result
	Status  string // discharged | failed | undecided
	Backend string
	Ms      int64
	Model   string
	Raw     string
}

type Gen struct {
	E        *Engine
	fn       *ssa.Function
	key      string
	fc       *FuncContract
	mode     Mode
	wrapOK   bool
	// nativeStr (lemmas with strings=native): the query is rewritten so that Go strings are SMT-LIB strings
	// (concatenation, length and containment interpreted) instead of an uninterpreted sort
	nativeStr bool
	out       strings.Builder
	declared map[string]bool
	heapSort map[string]string
	strLits  map[string]string
	asm      []string
	obls     []*Obl
	oblNames map[string]int
	vals     map[ssa.Value]Val
	nfresh   int
	notes    []string
	noteSet  map[string]bool

	order     []*ssa.BasicBlock
	blockEnd  map[*ssa.BasicBlock]*State
	loops     map[*ssa.BasicBlock]*loopInfo // by header
	loopOrd   []*ssa.BasicBlock
	params    map[string]Val
	results   []string // result names
	entry     *State
	cur       *State
	debugVals map[string][]debugRef
	hdrEnv    map[*ssa.BasicBlock]map[string]Val
	callCount map[string]int
	ghostEnv  map[string]Val

	subTags      []string
	typeTags     []string
	escaped      map[string]bool
	havocEpoch   int
	closures     map[*ssa.MakeClosure]*closureInfo
	iters        map[*ssa.Range]*iterInfo
	iterOrd      []*ssa.Range
	nIter        int
	uncontracted map[string]int
	inlineDepth  int
	inlineMode   bool
	rets         []retInfo
	curInstr     ssa.Instruction
	inQuant      int
	seqElem      map[string]types.Type // element Go type of ghost sequences, by sort
	rngPred      map[string]bool       // struct range predicates already defined (false: trivially true)
	cellAllocs   map[*ssa.Alloc]bool   // local struct allocations held as values (address never escapes)
	cellMods     map[string]map[int]bool // per struct cell: top-level fields written in the loop being analysed (-1: whole)
	cellT        map[string]types.Type   // Go type held by a cell
	cellPaths    map[string][][]pathStep // per struct cell: full field paths written in the loop being analysed
	initOnlyUsed map[string]bool         // init-only fields whose frame was assumed across a coarse call
	outerLookup  func(string, *State) (Val, bool)
	freeVarNames map[string]bool         // names of captured variables of the closure being inlined
	lookupPos    token.Pos // source position contract names are resolved at (scoping)
	decEntryFn   string    // value of the function's own decreases measure at entry (recursion)
	loopTermBases map[string][]func(*State) (string, bool) // written objects named by terms, per heap variable (loop being analysed)
	dtDecls       [][2]string // struct datatypes declared so far (id, declaration), in order
}

type debugRef struct {
	blk  *ssa.BasicBlock
	idx  int
	val  ssa.Value
	addr bool
	obj  types.Object
}

type loopInfo struct {
	header   *ssa.BasicBlock
	body     map[*ssa.BasicBlock]bool
	backs    []*ssa.BasicBlock
	ordinal  int
	lc       *LoopContract
	entrySt  *State
	decEntry string
}

func (g *Gen) emit(f string, a ...interface{}) {
	fmt.Fprintf(&g.out, f, a...)
	g.out.WriteByte('\n')
}

func (g *Gen) note(f string, a ...interface{}) {
	s := fmt.Sprintf(f, a...)
	if !g.noteSet[s] {
		g.noteSet[s] = true
		g.notes = append(g.notes, s)
	}
}

func (g *Gen) fresh(prefix, sort string) string {
	g.nfresh++
	n := fmt.Sprintf("%s!%d", sanitize(prefix), g.nfresh)
	g.emit("(declare-const %s %s)", n, sort)
	return n
}

func (g *Gen) define(prefix, sort, term string) string {
	if len(term) < 24 && !strings.Contains(term, " ") {
		return term
	}
	if g.inQuant > 0 {
		return term // bound variables may occur: keep the term inline
	}
	g.nfresh++
	n := fmt.Sprintf("%s!%d", sanitize(prefix), g.nfresh)
	g.emit("(define-fun %s () %s %s)", n, sort, term)
	return n
}

func (g *Gen) assume(term string) {
	if term == "true" {
		return
	}
	if g.cur.reach == "true" {
		g.asm = append(g.asm, term)
	} else {
		g.asm = append(g.asm, fmt.Sprintf("(=> %s %s)", g.cur.reach, term))
	}
}

func (g *Gen) oblige(kind, label, goal string, pos token.Pos, text string) *Obl {
	if g.cur.dead {
		return nil
	}
	base := fmt.Sprintf("%s#%s:%s", g.key, kind, label)
	g.oblNames[base]++
	name := base
	if n := g.oblNames[base]; n > 1 {
		name = fmt.Sprintf("%s[%d]", base, n)
	}
	o := &Obl{Name: name, Kind: kind, Label: label, Func: g.key, PrefixN: g.out.Len(), AsmN: len(g.asm), Reach: g.cur.reach, Goal: goal, Text: text, gen: g}
	if pos.IsValid() {
		p := g.E.fset.Position(pos)
		o.Pos = fmt.Sprintf("%s:%d", p.Filename, p.Line)
	}
	g.obls = append(g.obls, o)
	return o
}

// safe emits a safety obligation and then assumes it.
func (g *Gen) safe(label, goal string, pos token.Pos) {
	if goal == "true" {
		return
	}
	g.oblige("safe", label, goal, pos, "")
	g.assume(goal)
}

// ---- heap variables ----

func (g *Gen) heapDecl(name, sort string) {
	if s, ok := g.heapSort[name]; ok {
		if s != sort {
			panic(fmt.Sprintf("heap var %s sort mismatch %s vs %s", name, s, sort))
		}
		return
	}
	g.heapSort[name] = sort
	g.emit("(declare-const |%s@0| %s)", name, sort)
}

func (g *Gen) heapGet(st *State, name string) string {
	if name == "$alloc" {
		g.heapDecl(name, "Int")
	}
	if _, ok := g.heapSort[name]; !ok {
		panic("heap var used before declaration: " + name)
	}
	if st != nil {
		if t, ok := st.store[name]; ok {
			return t
		}
	}
	return "|" + name + "@0|"
}

func (g *Gen) heapSet(st *State, name, term string) {
	st.store[name] = g.define(name, g.heapSort[name], term)
}

func (g *Gen) heapHavoc(st *State, name string) string {
	n := g.fresh(name, g.heapSort[name])
	st.store[name] = n
	return n
}

// fieldHeap returns the heap variable for field i of struct type t.
func (g *Gen) fieldHeap(t types.Type, i int) string {
	st := t.Underlying().(*types.Struct)
	f := st.Field(i)
	name := "F." + typeID(t) + "." + sanitize(f.Name())
	if _, ok := f.Type().Underlying().(*types.Struct); ok {
		panic("fieldHeap on embedded struct field " + name)
	}
	g.heapDecl(name, "(Array Int "+g.sortOf(f.Type())+")")
	return name
}

func (g *Gen) arrHeap(elem types.Type) string {
	es := g.sortOf(elem)
	name := "Harr." + sanitize(es)
	g.heapDecl(name, "(Array Int (Array "+g.idxSort()+" "+es+"))")
	return name
}

func (g *Gen) mapHeaps(m *types.Map) (dom, val string) {
	ks, vs := g.sortOf(m.Key()), g.sortOf(m.Elem())
	// one heap per Go map type (key and element types as written): maps of different types never alias,
	// even when their elements share an SMT sort (pointers, maps and ints are all Int)
	id := typeID(m.Key()) + "." + typeID(m.Elem())
	dom, val = "Mdom."+id, "Mval."+id
	g.heapDecl(dom, "(Array Int (Array "+ks+" Bool))")
	g.heapDecl(val, "(Array Int (Array "+ks+" "+vs+"))")
	return
}

// subRef returns the reference of the struct embedded as field i in the struct object r of type t.
func (g *Gen) subRef(t types.Type, i int, r string) string {
	f := t.Underlying().(*types.Struct).Field(i)
	fn := "sub." + typeID(t) + "." + sanitize(f.Name())
	if !g.declared[fn] {
		g.declared[fn] = true
		g.emit("(declare-fun %s (Int) Int)", fn)
		g.emit("(declare-fun own.%s (Int) Int)", fn)
		g.subTags = append(g.subTags, fn)
	}
	term := "(" + fn + " " + r + ")"
	key := "subinst:" + term
	if g.inQuant > 0 {
		// the reference may mention bound variables: state the facts once, universally
		if !g.declared["subax:"+fn] {
			g.declared["subax:"+fn] = true
			tag := 0
			for i, s := range g.subTags {
				if s == fn {
					tag = i + 1
				}
			}
			g.emit("(assert (forall ((r Int)) (! (and (< (%s r) 0) (= (own.%s (%s r)) r) (= (ref.tag (%s r)) %d) (= (ref.root (%s r)) (ref.root r))) :pattern ((%s r)))))", fn, fn, fn, fn, tag, fn, fn)
		}
		return term
	}
	if !g.declared[key] {
		g.declared[key] = true
		tag := 0
		for i, s := range g.subTags {
			if s == fn {
				tag = i + 1
			}
		}
		// ground instance of: sub(r) is negative (never a top-level object), injective, tagged
		g.emit("(assert (and (< %s 0) (= (own.%s %s) %s) (= (ref.tag %s) %d) (= (ref.root %s) (ref.root %s))))", term, fn, term, r, term, tag, term, r)
	}
	return term
}

// ---- struct load / store through references ----

func (g *Gen) loadStruct(st *State, t types.Type, r string) string {
	s := t.Underlying().(*types.Struct)
	sort := g.structSort(t)
	if s.NumFields() == 0 {
		return "mk." + sort
	}
	var fs []string
	for i := 0; i < s.NumFields(); i++ {
		f := s.Field(i)
		if _, ok := f.Type().Underlying().(*types.Struct); ok {
			fs = append(fs, g.loadStruct(st, f.Type(), g.subRef(t, i, r)))
		} else {
			h := g.fieldHeap(t, i)
			fs = append(fs, fmt.Sprintf("(select %s %s)", g.heapGet(st, h), r))
		}
	}
	return "(mk." + sort + " " + strings.Join(fs, " ") + ")"
}

func (g *Gen) storeStruct(st *State, t types.Type, r, v string) {
	s := t.Underlying().(*types.Struct)
	sort := g.structSort(t)
	for i := 0; i < s.NumFields(); i++ {
		f := s.Field(i)
		fv := fmt.Sprintf("(%s.%s %s)", sort, sanitize(f.Name()), v)
		if _, ok := f.Type().Underlying().(*types.Struct); ok {
			g.storeStruct(st, f.Type(), g.subRef(t, i, r), fv)
		} else {
			h := g.fieldHeap(t, i)
			g.heapSet(st, h, fmt.Sprintf("(store %s %s %s)", g.heapGet(st, h), r, fv))
		}
	}
}

// leafHeaps lists every heap variable a whole-struct store to type t touches.
func (g *Gen) leafHeaps(t types.Type, acc *[]string) {
	s := t.Underlying().(*types.Struct)
	for i := 0; i < s.NumFields(); i++ {
		f := s.Field(i)
		if _, ok := f.Type().Underlying().(*types.Struct); ok {
			g.leafHeaps(f.Type(), acc)
		} else {
			*acc = append(*acc, g.fieldHeap(t, i))
		}
	}
}

// load reads through a pointer value.
func (g *Gen) load(st *State, p Val, elem types.Type) Val {
	if p.Addr != nil {
		term := g.addrTerm(st, p.Addr)
		v := Val{T: elem, S: g.define("ld", g.sortOf(elem), term)}
		al := g.heapGet(st, "$alloc")
		if strings.HasPrefix(term, "(select |") {
			// a value read from a heap variable that has not been written since function entry refers to an object
			// that existed at entry (not merely "now"): it cannot be one this function has allocated
			if hv := strings.SplitN(term[len("(select "):], " ", 2)[0]; strings.HasSuffix(hv, "@0|") {
				al = "|$alloc@0|"
			}
		}
		g.assume(g.rangeOfA(elem, v.S, al))
		return v
	}
	if _, ok := elem.Underlying().(*types.Struct); ok {
		v := Val{T: elem, S: g.define("lds", g.sortOf(elem), g.loadStruct(st, elem, p.S))}
		g.assume(g.rangeOf(elem, v.S, st))
		return v
	}
	if arr, ok := elem.Underlying().(*types.Array); ok {
		// pointer to array: backing store lives in the array heap
		h := g.arrHeap(arr.Elem())
		return Val{T: elem, S: fmt.Sprintf("(select %s %s)", g.heapGet(st, h), p.S)}
	}
	g.note("load through unsupported pointer %s", p.T)
	return g.havocVal(elem, "ld")
}

// addrRoot is the value stored at the root cell of an address (before applying its path).
func (g *Gen) addrRoot(st *State, a *Addr) string {
	switch a.Kind {
	case "field":
		return fmt.Sprintf("(select %s %s)", g.heapGet(st, a.Heap), a.Base)
	case "elem":
		if a.Off != "" {
			return g.slElem(a.ElemRootT, fmt.Sprintf("(select %s %s)", g.heapGet(st, a.Heap), a.Base), a.Off, a.I)
		}
		return fmt.Sprintf("(select (select %s %s) %s)", g.heapGet(st, a.Heap), a.Base, a.Idx)
	}
	return g.heapGet(st, a.Heap)
}

func (g *Gen) addrTerm(st *State, a *Addr) string {
	t := g.addrRoot(st, a)
	for _, ps := range a.Path {
		f := ps.T.Underlying().(*types.Struct).Field(ps.I)
		t = fmt.Sprintf("(%s.%s %s)", g.structSort(ps.T), sanitize(f.Name()), t)
	}
	return t
}

// pathSet rebuilds the struct value `term` with the component at `path` replaced by v.
func (g *Gen) pathSet(term string, path []pathStep, v string) string {
	if len(path) == 0 {
		return v
	}
	ps := path[0]
	st := ps.T.Underlying().(*types.Struct)
	sort := g.structSort(ps.T)
	var fs []string
	for i := 0; i < st.NumFields(); i++ {
		sel := fmt.Sprintf("(%s.%s %s)", sort, sanitize(st.Field(i).Name()), term)
		if i == ps.I {
			fs = append(fs, g.pathSet(sel, path[1:], v))
		} else {
			fs = append(fs, sel)
		}
	}
	return "(mk." + sort + " " + strings.Join(fs, " ") + ")"
}

func (g *Gen) storeTo(st *State, p Val, elem types.Type, v Val) {
	if p.Addr != nil {
		a := p.Addr
		nv := v.S
		if len(a.Path) > 0 {
			nv = g.pathSet(g.addrRoot(st, a), a.Path, v.S)
		}
		switch a.Kind {
		case "field":
			g.heapSet(st, a.Heap, fmt.Sprintf("(store %s %s %s)", g.heapGet(st, a.Heap), a.Base, nv))
		case "elem":
			cur := g.heapGet(st, a.Heap)
			g.heapSet(st, a.Heap, fmt.Sprintf("(store %s %s (store (select %s %s) %s %s))", cur, a.Base, cur, a.Base, a.Idx, nv))
		case "cell", "global":
			g.heapSet(st, a.Heap, nv)
		}
		return
	}
	if _, ok := elem.Underlying().(*types.Struct); ok {
		g.storeStruct(st, elem, p.S, v.S)
		return
	}
	g.note("store through unsupported pointer %s", p.T)
	g.havocAll(st, "store through unsupported pointer")
}

func (g *Gen) havocVal(t types.Type, prefix string) Val {
	if tup, ok := t.(*types.Tuple); ok {
		v := Val{T: t}
		for i := 0; i < tup.Len(); i++ {
			v.Tuple = append(v.Tuple, g.havocVal(tup.At(i).Type(), prefix))
		}
		return v
	}
	if p, ok := t.Underlying().(*types.Pointer); ok {
		if _, isStruct := p.Elem().Underlying().(*types.Struct); !isStruct {
			// pointer to a non-struct cell we know nothing about: give it its own cell
			g.nfresh++
			h := fmt.Sprintf("cell.unknown.%d", g.nfresh)
			g.heapDecl(h, g.sortOf(p.Elem()))
			return Val{T: t, Addr: &Addr{Kind: "cell", Heap: h, ElemT: p.Elem()}, S: "1"}
		}
	}
	v := Val{T: t, S: g.fresh(prefix, g.sortOf(t))}
	g.assume(g.rangeOf(t, v.S, g.cur))
	return v
}

// havocAll forgets every heap variable (used for calls with no contract).
func (g *Gen) havocAll(st *State, why string) {
	names := make([]string, 0, len(g.heapSort))
	for n := range g.heapSort {
		names = append(names, n)
	}
	sort.Strings(names)
	allocBefore := g.heapGet(st, "$alloc")
	if g.initOnlyUsed == nil {
		g.initOnlyUsed = map[string]bool{}
	}
	for _, n := range names {
		if strings.HasPrefix(n, "cell.") && !g.escaped[n] {
			continue // local variable whose address never escapes
		}
		if strings.HasPrefix(n, "GI.") {
			continue // package-level variable that is never written outside init
		}
		if strings.HasPrefix(n, "iter.") {
			continue // bookkeeping of a map range (keys visited, entries yielded): no code can write it
		}
		if n == "$alloc" {
			old := g.heapGet(st, n)
			nw := g.heapHavoc(st, n)
			g.assume(fmt.Sprintf("(<= %s %s)", old, nw))
			continue
		}
		if g.E.fieldIsInitOnly(n) {
			// a field that is only ever written on freshly allocated objects: objects that exist now keep it
			old := g.heapGet(st, n)
			nw := g.heapHavoc(st, n)
			g.assume(fmt.Sprintf("(forall ((r Int)) (! (=> (and (< r %s) (< (ref.root r) %s)) (= (select %s r) (select %s r))) :pattern ((select %s r))))", allocBefore, allocBefore, nw, old, nw))
			g.initOnlyUsed[n] = true
			continue
		}
		g.heapHavoc(st, n)
	}
	g.havocEpoch++
}

// ---- CFG analysis ----

func (g *Gen) analyzeCFG() error {
	fn := g.fn
	// back edges
	g.loops = map[*ssa.BasicBlock]*loopInfo{}
	for _, b := range fn.Blocks {
		for _, s := range b.Succs {
			if s.Dominates(b) {
				li := g.loops[s]
				if li == nil {
					li = &loopInfo{header: s, body: map[*ssa.BasicBlock]bool{s: true}}
					g.loops[s] = li
				}
				li.backs = append(li.backs, b)
			}
		}
	}
	for _, li := range g.loops {
		// natural loop body
		var stack []*ssa.BasicBlock
		for _, b := range li.backs {
			if !li.body[b] {
				li.body[b] = true
				stack = append(stack, b)
			}
		}
		for len(stack) > 0 {
			b := stack[len(stack)-1]
			stack = stack[:len(stack)-1]
			for _, p := range b.Preds {
				if !li.body[p] {
					li.body[p] = true
					stack = append(stack, p)
				}
			}
		}
	}
	for h := range g.loops {
		g.loopOrd = append(g.loopOrd, h)
	}
	sort.Slice(g.loopOrd, func(i, j int) bool { return g.loopOrd[i].Index < g.loopOrd[j].Index })
	for i, h := range g.loopOrd {
		g.loops[h].ordinal = i + 1
		if g.fc != nil {
			g.loops[h].lc = g.fc.Loops[i+1]
		}
	}
	// topological order ignoring back edges
	visited := map[*ssa.BasicBlock]bool{}
	var post []*ssa.BasicBlock
	var dfs func(b *ssa.BasicBlock)
	dfs = func(b *ssa.BasicBlock) {
		visited[b] = true
		for _, s := range b.Succs {
			if s.Dominates(b) {
				continue
			}
			if !visited[s] {
				dfs(s)
			}
		}
		post = append(post, b)
	}
	if len(fn.Blocks) == 0 {
		return fmt.Errorf("function has no body")
	}
	dfs(fn.Blocks[0])
	if fn.Recover != nil && !visited[fn.Recover] {
		// recover block: not reachable by normal control flow; ignored (panics are safety obligations)
	}
	for i := len(post) - 1; i >= 0; i-- {
		g.order = append(g.order, post[i])
	}
	// check reducibility: every retreating edge must be a back edge
	pos := map[*ssa.BasicBlock]int{}
	for i, b := range g.order {
		pos[b] = i
	}
	for _, b := range g.order {
		for _, s := range b.Succs {
			if pos[s] <= pos[b] && !s.Dominates(b) {
				return fmt.Errorf("irreducible control flow")
			}
		}
	}
	// debug refs
	g.debugVals = map[string][]debugRef{}
	for _, b := range fn.Blocks {
		for i, in := range b.Instrs {
			if d, ok := in.(*ssa.DebugRef); ok {
				if o := d.Object(); o != nil {
					if _, isVar := o.(*types.Var); isVar {
						g.debugVals[o.Name()] = append(g.debugVals[o.Name()], debugRef{b, i, d.X, d.IsAddr, o})
					}
				}
			}
		}
	}
	return nil
}

func edgeCond(g *Gen, from, to *ssa.BasicBlock, idx int) string {
	last := from.Instrs[len(from.Instrs)-1]
	if iff, ok := last.(*ssa.If); ok {
		c := g.val(iff.Cond).S
		if from.Succs[0] == to && from.Succs[1] == to {
			return "true"
		}
		if idx == 0 {
			return c
		}
		return "(not " + c + ")"
	}
	return "true"
}

func and2(a, b string) string {
	if a == "true" {
		return b
	}
	if b == "true" {
		return a
	}
	if a == "false" || b == "false" {
		return "false"
	}
	return "(and " + a + " " + b + ")"
}

type inEdge struct {
	pred *ssa.BasicBlock
	cond string // reach(pred) && edge condition
	st   *State
	pidx int // index in b.Preds
}

func (g *Gen) inEdges(b *ssa.BasicBlock, wantBack bool) []inEdge {
	var out []inEdge
	for pi, p := range b.Preds {
		isBack := b.Dominates(p)
		if isBack != wantBack {
			continue
		}
		st := g.blockEnd[p]
		if st == nil {
			continue // unreachable predecessor
		}
		// which successor index of p leads to b (handle duplicate edges)
		sidx := -1
		cnt := 0
		for _, q := range b.Preds[:pi] {
			if q == p {
				cnt++
			}
		}
		c := 0
		for si, s := range p.Succs {
			if s == b {
				if c == cnt {
					sidx = si
					break
				}
				c++
			}
		}
		ec := edgeCond(g, p, b, sidx)
		out = append(out, inEdge{pred: p, cond: and2(st.reach, ec), st: st, pidx: pi})
	}
	return out
}

// mergeStates builds the state at the entry of a block from its incoming edges.
func (g *Gen) mergeStates(b *ssa.BasicBlock, edges []inEdge) *State {
	if len(edges) == 0 {
		return &State{reach: "false", store: map[string]string{}, dead: true}
	}
	if len(edges) == 1 {
		st := edges[0].st.clone()
		st.reach = g.define(fmt.Sprintf("reach.b%d", b.Index), "Bool", edges[0].cond)
		st.dead = edges[0].st.dead
		return st
	}
	var conds []string
	for _, e := range edges {
		conds = append(conds, e.cond)
	}
	st := &State{store: map[string]string{}}
	st.reach = g.define(fmt.Sprintf("reach.b%d", b.Index), "Bool", "(or "+strings.Join(conds, " ")+")")
	st.dead = true
	for _, e := range edges {
		if !e.st.dead {
			st.dead = false
		}
	}
	keys := map[string]bool{}
	for _, e := range edges {
		for k := range e.st.store {
			keys[k] = true
		}
	}
	names := make([]string, 0, len(keys))
	for k := range keys {
		names = append(names, k)
	}
	sort.Strings(names)
	for _, k := range names {
		first := g.heapGet(edges[0].st, k)
		same := true
		for _, e := range edges[1:] {
			if g.heapGet(e.st, k) != first {
				same = false
			}
		}
		if same {
			st.store[k] = first
			continue
		}
		term := g.heapGet(edges[len(edges)-1].st, k)
		for i := len(edges) - 2; i >= 0; i-- {
			term = fmt.Sprintf("(ite %s %s %s)", edges[i].cond, g.heapGet(edges[i].st, k), term)
		}
		st.store[k] = g.define(k, g.heapSort[k], term)
	}
	// defers: must agree
	st.defers = append([]*ssa.Defer(nil), edges[0].st.defers...)
	for _, e := range edges[1:] {
		if len(e.st.defers) != len(st.defers) {
			g.note("defer stacks differ at join b%d; using the shorter", b.Index)
			if len(e.st.defers) < len(st.defers) {
				st.defers = append([]*ssa.Defer(nil), e.st.defers...)
			}
		}
	}
	return st
}

func (g *Gen) phiValue(phi *ssa.Phi, edges []inEdge) Val {
	if len(edges) == 1 {
		return g.val(phi.Edges[edges[0].pidx])
	}
	vs := make([]Val, len(edges))
	for i, e := range edges {
		vs[i] = g.val(phi.Edges[e.pidx])
		if vs[i].Addr != nil {
			g.note("phi of symbolic addresses (%s) abstracted", phi.Name())
			return g.havocVal(phi.Type(), "phi."+phi.Comment)
		}
	}
	term := vs[len(vs)-1].S
	same := true
	for _, v := range vs {
		if v.S != term {
			same = false
		}
	}
	if !same {
		for i := len(edges) - 2; i >= 0; i-- {
			term = fmt.Sprintf("(ite %s %s %s)", edges[i].cond, vs[i].S, term)
		}
	}
	return Val{T: phi.Type(), S: g.define("phi."+phi.Comment, g.sortOf(phi.Type()), term)}
}
