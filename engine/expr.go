package main

// Contract expression language: lexer + Pratt parser.
//
//   e ::= forall x T, y T :: e | exists x T :: e
//       | e <==> e | e ==> e | e || e | e && e | e cmp e | e + e ... | !e | -e
//       | e ? e : e
//       | f(e,...) | e[e] | e[e:e] | e.f | ident | int | "str" | 'c' | true | false | nil
//       | old(e)
import (
	"fmt"
	"math/big"
	"strings"
	"unicode"
)

type Expr interface{ String() string }

type (
	EIdent struct{ Name string }
	EInt   struct{ V *big.Int }
	EStr   struct{ S string }
	EBool  struct{ V bool }
	ENil   struct{}
	EUnary struct {
		Op string
		X  Expr
	}
	EBinary struct {
		Op   string
		X, Y Expr
	}
	ECall struct {
		Fun  string
		Args []Expr
	}
	EIndex struct{ X, I Expr }
	ESlice struct{ X, Lo, Hi Expr }
	EField struct {
		X    Expr
		Name string
	}
	EQuant struct {
		Forall bool
		Vars   []Binder
		Body   Expr
		Pats   []Expr // explicit trigger terms: forall x T {f(x), g(x)} :: body
	}
	ECond struct{ C, A, B Expr }
)

type Binder struct{ Name, Type string }

func (e *EIdent) String() string  { return e.Name }
func (e *EInt) String() string    { return e.V.String() }
func (e *EStr) String() string    { return fmt.Sprintf("%q", e.S) }
func (e *EBool) String() string   { return fmt.Sprint(e.V) }
func (e *ENil) String() string    { return "nil" }
func (e *EUnary) String() string  { return e.Op + e.X.String() }
func (e *EBinary) String() string { return "(" + e.X.String() + " " + e.Op + " " + e.Y.String() + ")" }
func (e *ECall) String() string {
	var a []string
	for _, x := range e.Args {
		a = append(a, x.String())
	}
	return e.Fun + "(" + strings.Join(a, ", ") + ")"
}
func (e *EIndex) String() string { return e.X.String() + "[" + e.I.String() + "]" }
func (e *ESlice) String() string {
	lo, hi := "", ""
	if e.Lo != nil {
		lo = e.Lo.String()
	}
	if e.Hi != nil {
		hi = e.Hi.String()
	}
	return e.X.String() + "[" + lo + ":" + hi + "]"
}
func (e *EField) String() string { return e.X.String() + "." + e.Name }
func (e *EQuant) String() string {
	q := "exists"
	if e.Forall {
		q = "forall"
	}
	var v []string
	for _, b := range e.Vars {
		v = append(v, b.Name+" "+b.Type)
	}
	return "(" + q + " " + strings.Join(v, ", ") + " :: " + e.Body.String() + ")"
}
func (e *ECond) String() string {
	return "(" + e.C.String() + " ? " + e.A.String() + " : " + e.B.String() + ")"
}

type tok struct {
	kind string // id int str op eof
	text string
	ival *big.Int
}

type lexer struct {
	toks []tok
	pos  int
}

var ops = []string{"<==>", "==>", "&&", "||", "==", "!=", "<=", ">=", "<<", ">>", "&^", "::",
	"<", ">", "+", "-", "*", "/", "%", "&", "|", "^", "!", "(", ")", "[", "]", ".", ",", ":", "?", "{", "}"}

func lex(s string) ([]tok, error) {
	var out []tok
	i := 0
	for i < len(s) {
		c := s[i]
		if c == ' ' || c == '\t' || c == '\n' {
			i++
			continue
		}
		if unicode.IsLetter(rune(c)) || c == '_' || c == '$' {
			j := i
			for j < len(s) && (unicode.IsLetter(rune(s[j])) || unicode.IsDigit(rune(s[j])) || s[j] == '_' || s[j] == '$') {
				j++
			}
			out = append(out, tok{kind: "id", text: s[i:j]})
			i = j
			continue
		}
		if unicode.IsDigit(rune(c)) {
			j := i
			for j < len(s) && (unicode.IsDigit(rune(s[j])) || unicode.IsLetter(rune(s[j])) || s[j] == '_') {
				j++
			}
			v, ok := new(big.Int).SetString(strings.ReplaceAll(s[i:j], "_", ""), 0)
			if !ok {
				return nil, fmt.Errorf("bad number %q", s[i:j])
			}
			out = append(out, tok{kind: "int", text: s[i:j], ival: v})
			i = j
			continue
		}
		if c == '"' {
			j := i + 1
			var sb strings.Builder
			for j < len(s) && s[j] != '"' {
				if s[j] == '\\' && j+1 < len(s) {
					j++
					switch s[j] {
					case 'n':
						sb.WriteByte('\n')
					case 't':
						sb.WriteByte('\t')
					case 'x':
						if j+2 < len(s) {
							v, _ := new(big.Int).SetString(s[j+1:j+3], 16)
							sb.WriteByte(byte(v.Int64()))
							j += 2
						}
					default:
						sb.WriteByte(s[j])
					}
				} else {
					sb.WriteByte(s[j])
				}
				j++
			}
			if j >= len(s) {
				return nil, fmt.Errorf("unterminated string")
			}
			out = append(out, tok{kind: "str", text: sb.String()})
			i = j + 1
			continue
		}
		if c == '\'' {
			if i+2 < len(s) && s[i+2] == '\'' {
				out = append(out, tok{kind: "int", text: s[i : i+3], ival: big.NewInt(int64(s[i+1]))})
				i += 3
				continue
			}
			return nil, fmt.Errorf("bad char literal")
		}
		matched := false
		for _, op := range ops {
			if strings.HasPrefix(s[i:], op) {
				out = append(out, tok{kind: "op", text: op})
				i += len(op)
				matched = true
				break
			}
		}
		if !matched {
			return nil, fmt.Errorf("unexpected character %q in %q", c, s)
		}
	}
	out = append(out, tok{kind: "eof"})
	return out, nil
}

func ParseExpr(s string) (e Expr, err error) {
	toks, err := lex(s)
	if err != nil {
		return nil, err
	}
	p := &lexer{toks: toks}
	defer func() {
		if r := recover(); r != nil {
			if pe, ok := r.(parseErr); ok {
				err = fmt.Errorf("%s in %q", string(pe), s)
				return
			}
			panic(r)
		}
	}()
	e = p.parse(0)
	if p.peek().kind != "eof" {
		panic(parseErr("trailing tokens at " + p.peek().text))
	}
	return e, nil
}

type parseErr string

func (p *lexer) peek() tok { return p.toks[p.pos] }
func (p *lexer) next() tok { t := p.toks[p.pos]; p.pos++; return t }
func (p *lexer) isOp(s string) bool {
	t := p.peek()
	return t.kind == "op" && t.text == s
}
func (p *lexer) expect(s string) {
	if !p.isOp(s) {
		panic(parseErr("expected " + s + " got " + p.peek().text))
	}
	p.pos++
}

var binPrec = map[string]int{
	"<==>": 1, "==>": 2, "?": 3, "||": 4, "&&": 5,
	"==": 6, "!=": 6, "<": 6, "<=": 6, ">": 6, ">=": 6,
	"+": 7, "-": 7, "|": 7, "^": 7,
	"*": 8, "/": 8, "%": 8, "<<": 8, ">>": 8, "&": 8, "&^": 8,
}

func (p *lexer) parse(minPrec int) Expr {
	t := p.peek()
	if t.kind == "id" && (t.text == "forall" || t.text == "exists") {
		p.next()
		q := &EQuant{Forall: t.text == "forall"}
		for {
			n := p.next()
			if n.kind != "id" {
				panic(parseErr("binder name expected"))
			}
			ty := p.next()
			ptr := ""
			if ty.kind == "op" && ty.text == "*" {
				ptr = "*"
				ty = p.next()
			}
			if ty.kind != "id" {
				panic(parseErr("binder type expected"))
			}
			q.Vars = append(q.Vars, Binder{n.text, ptr + ty.text})
			if p.isOp(",") {
				p.next()
				continue
			}
			break
		}
		if p.isOp("{") {
			p.next()
			for !p.isOp("}") {
				q.Pats = append(q.Pats, p.parse(0))
				if p.isOp(",") {
					p.next()
				}
			}
			p.expect("}")
		}
		p.expect("::")
		q.Body = p.parse(0)
		return q
	}
	lhs := p.parseUnary()
	for {
		t := p.peek()
		if t.kind != "op" {
			return lhs
		}
		prec, ok := binPrec[t.text]
		if !ok || prec < minPrec {
			return lhs
		}
		p.next()
		switch t.text {
		case "?":
			a := p.parse(0)
			p.expect(":")
			b := p.parse(prec)
			lhs = &ECond{lhs, a, b}
		case "==>", "<==>":
			// right associative; rhs may be a quantifier
			rhs := p.parse(prec)
			lhs = &EBinary{t.text, lhs, rhs}
		default:
			rhs := p.parse(prec + 1)
			lhs = &EBinary{t.text, lhs, rhs}
		}
	}
}

func (p *lexer) parseUnary() Expr {
	t := p.peek()
	if t.kind == "op" && (t.text == "!" || t.text == "-" || t.text == "^") {
		p.next()
		return &EUnary{t.text, p.parseUnary()}
	}
	return p.parsePostfix(p.parsePrimary())
}

func (p *lexer) parsePrimary() Expr {
	t := p.next()
	switch t.kind {
	case "int":
		return &EInt{t.ival}
	case "str":
		return &EStr{t.text}
	case "id":
		switch t.text {
		case "true":
			return &EBool{true}
		case "false":
			return &EBool{false}
		case "nil":
			return &ENil{}
		case "forall", "exists":
			p.pos--
			return p.parse(0)
		}
		if p.isOp("(") {
			p.next()
			var args []Expr
			for !p.isOp(")") {
				args = append(args, p.parse(0))
				if p.isOp(",") {
					p.next()
				}
			}
			p.expect(")")
			return &ECall{t.text, args}
		}
		return &EIdent{t.text}
	case "op":
		if t.text == "(" {
			e := p.parse(0)
			p.expect(")")
			return e
		}
	}
	panic(parseErr("unexpected tok " + t.text))
}

func (p *lexer) parsePostfix(e Expr) Expr {
	for {
		switch {
		case p.isOp("."):
			p.next()
			n := p.next()
			if n.kind != "id" {
				panic(parseErr("field name expected"))
			}
			if p.isOp("(") { // method-style spec call: x.f(a) == f(x,a)
				p.next()
				args := []Expr{e}
				for !p.isOp(")") {
					args = append(args, p.parse(0))
					if p.isOp(",") {
						p.next()
					}
				}
				p.expect(")")
				e = &ECall{n.text, args}
			} else {
				e = &EField{e, n.text}
			}
		case p.isOp("["):
			p.next()
			var lo, hi Expr
			if p.isOp(":") {
				p.next()
				if !p.isOp("]") {
					hi = p.parse(0)
				}
				p.expect("]")
				e = &ESlice{e, nil, hi}
				continue
			}
			lo = p.parse(0)
			if p.isOp(":") {
				p.next()
				if !p.isOp("]") {
					hi = p.parse(0)
				}
				p.expect("]")
				e = &ESlice{e, lo, hi}
				continue
			}
			p.expect("]")
			e = &EIndex{e, lo}
		default:
			return e
		}
	}
}
