package main

import (
	"fmt"
	"go/types"
	"math/big"
	"strings"
)

type Mode int

const (
	ModeInt Mode = iota
	ModeBV
)

// Val is a symbolic value.
type Val struct {
	T     types.Type
	S     string // SMT term
	Tuple []Val
	Addr  *Addr // symbolic address (pointer to non-struct)
	Untyped bool // untyped integer constant in a contract
	C     *big.Int // constant value if known
	Sort  string   // SMT sort when T is nil (spec-only values)
}

// Addr is a symbolic address of a non-struct cell.
type Addr struct {
	Kind  string // field | elem | cell | global
	Heap  string // heap variable name
	Base  string // object ref (field) / array ref (elem)
	Idx   string // absolute index into backing array (elem)
	ElemT types.Type
	Path  []pathStep // selection inside a struct value held in the cell / element
	Off, I string    // elem of a slice: offset of the slice and index within it (for the sl.elem accessor)
	ElemRootT types.Type // elem: element type of the backing array (before Path is applied)
}

// slElem reads element i of a slice view (array a, offset o) through the accessor function
// sl.elem.<sort>, which gives quantified contracts about slice elements a usable trigger.
func (g *Gen) slElem(elem types.Type, arr, off, i string) string {
	if g.mode != ModeInt || elem == nil {
		return "(select " + arr + " " + g.add(off, i) + ")"
	}
	es := g.sortOf(elem)
	fn := "sl.elem." + sanitize(es)
	if !g.declared["uf:"+fn] {
		g.declared["uf:"+fn] = true
		g.emit("(declare-fun %s ((Array Int %s) Int Int) %s)", fn, es, es)
		g.emit("(assert (forall ((a (Array Int %s)) (o Int) (i Int)) (! (= (%s a o i) (select a (+ o i))) :pattern ((%s a o i)))))", es, fn, fn)
	}
	return "(" + fn + " " + arr + " " + off + " " + i + ")"
}

func sanitize(s string) string {
	var sb strings.Builder
	for _, r := range s {
		switch {
		case r >= 'a' && r <= 'z', r >= 'A' && r <= 'Z', r >= '0' && r <= '9', r == '_', r == '.', r == '$':
			sb.WriteRune(r)
		case r == '/':
			sb.WriteRune('.')
		case r == '*':
			sb.WriteString("ptr.")
		case r == '[':
			sb.WriteString("L")
		case r == ']':
			sb.WriteString("R")
		default:
			sb.WriteRune('_')
		}
	}
	return sb.String()
}

func intWidth(b *types.Basic) (w int, signed bool, ok bool) {
	switch b.Kind() {
	case types.Int8:
		return 8, true, true
	case types.Int16:
		return 16, true, true
	case types.Int32:
		return 32, true, true
	case types.Int64, types.Int:
		return 64, true, true
	case types.Uint8:
		return 8, false, true
	case types.Uint16:
		return 16, false, true
	case types.Uint32:
		return 32, false, true
	case types.Uint64, types.Uint, types.Uintptr:
		return 64, false, true
	case types.UntypedInt, types.UntypedRune:
		return 64, true, true
	}
	return 0, false, false
}

func isIntType(t types.Type) bool {
	if b, ok := t.Underlying().(*types.Basic); ok {
		_, _, ok := intWidth(b)
		return ok
	}
	return false
}

func isString(t types.Type) bool {
	b, ok := t.Underlying().(*types.Basic)
	return ok && (b.Kind() == types.String || b.Kind() == types.UntypedString)
}

func isBool(t types.Type) bool {
	b, ok := t.Underlying().(*types.Basic)
	return ok && (b.Kind() == types.Bool || b.Kind() == types.UntypedBool)
}

func pow2(k int) *big.Int { return new(big.Int).Lsh(big.NewInt(1), uint(k)) }

// typeID gives a stable identifier for a Go type (used in heap-variable and datatype names).
func typeID(t types.Type) string {
	switch tt := t.(type) {
	case *types.Named:
		o := tt.Obj()
		if o.Pkg() != nil {
			return sanitize(o.Pkg().Name() + "." + o.Name())
		}
		return sanitize(o.Name())
	case *types.Alias:
		return typeID(types.Unalias(tt))
	}
	return sanitize(types.TypeString(t, func(p *types.Package) string { return p.Name() }))
}

// ---- sort handling (per generator, because of the arithmetic mode) ----

func (g *Gen) idxSort() string {
	if g.mode == ModeBV {
		return "(_ BitVec 64)"
	}
	return "Int"
}

func (g *Gen) intSort(t types.Type) string {
	if g.mode == ModeBV {
		w, _, _ := intWidth(t.Underlying().(*types.Basic))
		return fmt.Sprintf("(_ BitVec %d)", w)
	}
	return "Int"
}

func (g *Gen) sortOf(t types.Type) string {
	switch tt := t.Underlying().(type) {
	case *types.Basic:
		if _, _, ok := intWidth(tt); ok {
			return g.intSort(tt)
		}
		switch tt.Kind() {
		case types.Bool, types.UntypedBool:
			return "Bool"
		case types.String, types.UntypedString:
			return "Str"
		case types.UnsafePointer:
			return "Int"
		case types.Float32, types.Float64, types.UntypedFloat:
			return "Real"
		case types.UntypedNil:
			return "Int"
		}
	case *types.Pointer, *types.Map, *types.Chan, *types.Signature:
		return "Int"
	case *types.Slice:
		return "Slice"
	case *types.Interface:
		return "Iface"
	case *types.Struct:
		return g.structSort(t)
	case *types.Array:
		return "(Array " + g.idxSort() + " " + g.sortOf(tt.Elem()) + ")"
	case *types.Tuple:
		return "TUPLE"
	}
	g.note("unsupported type %s", t)
	return "Int"
}

func (g *Gen) structSort(t types.Type) string {
	id := "S." + typeID(t)
	if g.declared[id] {
		return id
	}
	g.declared[id] = true
	st := t.Underlying().(*types.Struct)
	var fs []string
	for i := 0; i < st.NumFields(); i++ {
		f := st.Field(i)
		fname := sanitize(f.Name())
		if f.Name() == "_" {
			// blank fields (atomic.Uint64 has two) are never selected; they only need distinct accessor names
			fname = fmt.Sprintf("_blank%d", i)
		}
		fs = append(fs, fmt.Sprintf("(%s.%s %s)", id, fname, g.sortOf(f.Type())))
	}
	line := fmt.Sprintf("(declare-datatypes ((%s 0)) (((mk.%s %s))))", id, id, strings.Join(fs, " "))
	g.emit("%s", line)
	g.dtDecls = append(g.dtDecls, [2]string{id, line})
	return id
}

func (g *Gen) intLit(v *big.Int, t types.Type) string {
	if g.mode == ModeBV {
		w, _, _ := intWidth(t.Underlying().(*types.Basic))
		m := new(big.Int).Mod(v, pow2(w))
		return fmt.Sprintf("(_ bv%s %d)", m.String(), w)
	}
	if v.Sign() < 0 {
		return "(- " + new(big.Int).Neg(v).String() + ")"
	}
	return v.String()
}

func (g *Gen) idxLit(n int64) string {
	return g.intLit(big.NewInt(n), types.Typ[types.Int])
}

func (g *Gen) zero(t types.Type) string {
	switch tt := t.Underlying().(type) {
	case *types.Basic:
		if _, _, ok := intWidth(tt); ok {
			return g.intLit(big.NewInt(0), tt)
		}
		switch tt.Kind() {
		case types.Bool, types.UntypedBool:
			return "false"
		case types.String, types.UntypedString:
			return g.strLit("")
		case types.Float32, types.Float64:
			return "0.0"
		}
		return "0"
	case *types.Pointer, *types.Map, *types.Chan, *types.Signature:
		return "0"
	case *types.Slice:
		z := g.idxLit(0)
		return fmt.Sprintf("(mk-slice 0 %s %s %s)", z, z, z)
	case *types.Interface:
		return "iface.nil"
	case *types.Struct:
		s := g.structSort(t)
		if tt.NumFields() == 0 {
			return "mk." + s
		}
		var fs []string
		for i := 0; i < tt.NumFields(); i++ {
			fs = append(fs, g.zero(tt.Field(i).Type()))
		}
		return "(mk." + s + " " + strings.Join(fs, " ") + ")"
	case *types.Array:
		ez := g.zero(tt.Elem())
		if strings.Contains(ez, "lit.") || strings.Contains(ez, "iface.nil") {
			// string literals are uninterpreted constants, which cvc5 does not accept in a constant array:
			// name the array and state its contents
			g.nfresh++
			n := fmt.Sprintf("arr0!%d", g.nfresh)
			g.emit("(declare-const %s %s)", n, g.sortOf(t))
			g.emit("(assert (forall ((i %s)) (! (= (select %s i) %s) :pattern ((select %s i)))))", g.idxSort(), n, ez, n)
			return n
		}
		return fmt.Sprintf("((as const %s) %s)", g.sortOf(t), ez)
	}
	return "0"
}

// strLit interns a string literal as an SMT constant with ground facts about its content.
func (g *Gen) strLit(s string) string {
	if n, ok := g.strLits[s]; ok {
		return n
	}
	n := fmt.Sprintf("lit.%d", len(g.strLits))
	g.strLits[s] = n
	g.emit("(declare-const %s Str) ; %q", n, s)
	var facts []string
	facts = append(facts, fmt.Sprintf("(= (s.len %s) %s)", n, g.idxLit(int64(len(s)))))
	for i := 0; i < len(s) && i < 64; i++ {
		facts = append(facts, fmt.Sprintf("(= (s.at %s %s) %s)", n, g.idxLit(int64(i)), g.intLit(big.NewInt(int64(s[i])), types.Typ[types.Uint8])))
	}
	g.emit("(assert (and %s true))", strings.Join(facts, " "))
	// literals with different contents are different strings (follows from the facts when
	// lengths or bytes differ, which they do for distinct literals up to 64 bytes)
	return n
}

// rangeOf returns a Bool term constraining term s to be a legal value of Go type t
// (integer ranges in int mode, lengths non-negative, refs below the allocation counter).
func (g *Gen) rangeOf(t types.Type, s string, st *State) string {
	return g.rangeOfA(t, s, g.heapGet(st, "$alloc"))
}

// rangeOfA: as rangeOf, with the allocation counter given as a term. Struct types get one defined
// predicate rng.<sort>(x, alloc) so that the (large) conjunction is written once per query.
func (g *Gen) rangeOfA(t types.Type, s string, al string) string {
	st := (*State)(nil)
	_ = st
	switch tt := t.Underlying().(type) {
	case *types.Basic:
		if w, signed, ok := intWidth(tt); ok && g.mode == ModeInt {
			if signed {
				return fmt.Sprintf("(and (<= (- %s) %s) (<= %s %s))", pow2(w-1).String(), s, s, new(big.Int).Sub(pow2(w-1), big.NewInt(1)).String())
			}
			return fmt.Sprintf("(and (<= 0 %s) (<= %s %s))", s, s, new(big.Int).Sub(pow2(w), big.NewInt(1)).String())
		}
		if isString(t) {
			return fmt.Sprintf("(and %s %s)", g.le(g.idxLit(0), "(s.len "+s+")"), g.le("(s.len "+s+")", g.idxLit(maxLen)))
		}
		return "true"
	case *types.Pointer:
		if _, isStruct := tt.Elem().Underlying().(*types.Struct); isStruct {
			return fmt.Sprintf("(and (< %s %s) (< (ref.root %s) %s))", s, al, s, al)
		}
		return "true"
	case *types.Interface:
		if g.E != nil && g.E.contracts.NonNil[typeID(t)] {
			return "(not (= " + s + " iface.nil))"
		}
		return "true"
	case *types.Map, *types.Chan:
		// (a map or channel is an object of its own: its root is allocated too, which is what loop frames ask for)
		return fmt.Sprintf("(and (<= 0 %s) (< %s %s) (< (ref.root %s) %s))", s, s, al, s, al)
	case *types.Slice:
		z := g.idxLit(0)
		return fmt.Sprintf("(and (<= 0 (sl.ref %s)) (< (sl.ref %s) %s) %s %s %s %s (=> (= (sl.ref %s) 0) (= (sl.cap %s) %s)))", s, s, al,
			g.le(z, "(sl.off "+s+")"), g.le(z, "(sl.len "+s+")"), g.le("(sl.len "+s+")", "(sl.cap "+s+")"), g.le("(sl.cap "+s+")", g.idxLit(maxLen)), s, s, z)
	case *types.Struct:
		sort := g.structSort(t)
		pred := "rng." + sort
		if v, done := g.rngPred[pred]; done {
			if !v {
				return "true"
			}
			return "(" + pred + " " + s + " " + al + ")"
		}
		if g.rngPred == nil {
			g.rngPred = map[string]bool{}
		}
		g.rngPred[pred] = false // guards recursion
		var parts []string
		for i := 0; i < tt.NumFields(); i++ {
			f := tt.Field(i)
			r := g.rangeOfA(f.Type(), fmt.Sprintf("(%s.%s rx)", sort, sanitize(f.Name())), "ral")
			if r != "true" {
				parts = append(parts, r)
			}
		}
		if len(parts) == 0 {
			return "true"
		}
		g.rngPred[pred] = true
		g.emit("(define-fun %s ((rx %s) (ral Int)) Bool (and %s))", pred, sort, strings.Join(parts, " "))
		return "(" + pred + " " + s + " " + al + ")"
	}
	return "true"
}

const maxLen = 1 << 40

// le / lt on index-sorted terms (signed in bv mode).
func (g *Gen) le(a, b string) string {
	if g.mode == ModeBV {
		return "(bvsle " + a + " " + b + ")"
	}
	return "(<= " + a + " " + b + ")"
}
func (g *Gen) lt(a, b string) string {
	if g.mode == ModeBV {
		return "(bvslt " + a + " " + b + ")"
	}
	return "(< " + a + " " + b + ")"
}
func (g *Gen) add(a, b string) string {
	if g.mode == ModeBV {
		return "(bvadd " + a + " " + b + ")"
	}
	return "(+ " + a + " " + b + ")"
}
func (g *Gen) sub(a, b string) string {
	if g.mode == ModeBV {
		return "(bvsub " + a + " " + b + ")"
	}
	return "(- " + a + " " + b + ")"
}
