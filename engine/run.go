package main

import (
	"fmt"
	"go/token"
	"go/types"
	"os"
	"sort"
	"strings"

	"golang.org/x/tools/go/ssa"
)

type retInfo struct {
	st   *State
	vals []Val
	cond string
}

func NewGen(E *Engine, fn *ssa.Function, key string, fc *FuncContract) *Gen {
	g := &Gen{E: E, fn: fn, key: key, fc: fc,
		declared: map[string]bool{}, heapSort: map[string]string{}, strLits: map[string]string{},
		oblNames: map[string]int{}, vals: map[ssa.Value]Val{}, noteSet: map[string]bool{},
		blockEnd: map[*ssa.BasicBlock]*State{}, callCount: map[string]int{},
		closures: map[*ssa.MakeClosure]*closureInfo{}, iters: map[*ssa.Range]*iterInfo{},
		escaped: map[string]bool{}, uncontracted: map[string]int{}}
	if fc != nil {
		if fc.Opts["arith"] == "bv" {
			g.mode = ModeBV
		}
		if fc.Opts["overflow"] == "wrap" {
			g.wrapOK = true
		}
	}
	return g
}

func (g *Gen) prelude() string {
	var sb strings.Builder
	idx := g.idxSort()
	byteS := g.sortOf(types.Typ[types.Uint8])
	sb.WriteString("(declare-sort Str 0)\n(declare-sort Iface 0)\n(declare-const iface.nil Iface)\n(declare-fun iface.type (Iface) Int)\n(assert (= (iface.type iface.nil) 0))\n")
	fmt.Fprintf(&sb, "(declare-fun s.len (Str) %s)\n(declare-fun s.at (Str %s) %s)\n", idx, idx, byteS)
	fmt.Fprintf(&sb, "(declare-datatypes ((Slice 0)) (((mk-slice (sl.ref Int) (sl.off %s) (sl.len %s) (sl.cap %s)))))\n", idx, idx, idx)
	sb.WriteString("(declare-fun ref.tag (Int) Int)\n(declare-fun ref.root (Int) Int)\n")
	modeName := "int"
	if g.mode == ModeBV {
		modeName = "bv"
	}
	if g.nativeStr {
		// the raw SMT lines of the contract files are quantified axioms over the uninterpreted string sort; a lemma over
		// native strings does not use them, and with them no solver would answer sat
		return sb.String()
	}
	for _, l := range g.E.contracts.SMT["any"] {
		sb.WriteString(l + "\n")
	}
	for _, l := range g.E.contracts.SMT[modeName] {
		sb.WriteString(l + "\n")
	}
	return sb.String()
}

// Run generates all obligations of the function under contract.
func (g *Gen) Run() (err error) {
	defer func() {
		if r := recover(); r != nil {
			if ee, ok := r.(evalErr); ok {
				err = fmt.Errorf("%s: %s", g.key, string(ee))
				return
			}
			panic(r)
		}
	}()
	g.entry = &State{reach: "true", store: map[string]string{}}
	g.cur = g.entry.clone()
	g.heapDecl("$alloc", "Int")
	g.emit("(assert (> |$alloc@0| 0))")
	if err := g.analyzeCFG(); err != nil {
		return err
	}
	// parameters
	g.params = map[string]Val{}
	bind := func(name string, t types.Type, v ssa.Value) {
		val := g.paramVal(name, t)
		g.vals[v] = val
		if name != "" && name != "_" {
			g.params[name] = val
			g.params[name+"0"] = val
		}
	}
	for _, p := range g.fn.Params {
		bind(p.Name(), p.Type(), p)
	}
	for _, fv := range g.fn.FreeVars {
		bind(fv.Name(), fv.Type(), fv)
	}
	if recv := g.fn.Signature.Recv(); recv != nil && len(g.fn.Params) > 0 {
		if _, isPtr := recv.Type().Underlying().(*types.Pointer); isPtr && g.vals[g.fn.Params[0]].Addr == nil && (g.fc == nil || g.fc.Opts["nilrecv"] != "true") {
			// implicit precondition of every pointer-receiver method under contract; call sites prove it
			g.assume("(not (= " + g.vals[g.fn.Params[0]].S + " 0))")
		}
	}
	env := g.fnEnv(g.cur, nil)
	if g.fc != nil {
		for _, r := range g.fc.Requires {
			if r.E == nil {
				continue
			}
			s, err := g.evalBool(env, r.E)
			if err != nil {
				return fmt.Errorf("%s:%d: %v", r.File, r.Line, err)
			}
			g.assume(s)
		}
	}
	if err := g.assumeAxioms(env); err != nil {
		return err
	}
	if g.fc != nil && g.fc.Decreases != nil && g.fc.Decreases.E != nil {
		// termination measure of a recursive function, evaluated at entry
		v := g.eval(env, g.fc.Decreases.E)
		g.decEntryFn = v.S
	}
	g.oblige("cover", "requires-satisfiable", "true", g.fn.Pos(), "").Cover = true
	g.runBody()
	return nil
}

// assumeAxioms: definitional axioms the contract lists under uses=name1,name2 (trusted; reported in evidence).
func (g *Gen) assumeAxioms(env *Env) error {
	if g.fc == nil || g.fc.Opts["uses"] == "" {
		return nil
	}
	for _, name := range strings.Split(g.fc.Opts["uses"], ",") {
		ax := g.E.contracts.Axioms[name]
		if ax == nil {
			return fmt.Errorf("%s: unknown axiom %s", g.key, name)
		}
		s, err := g.evalBool(env, ax.E)
		if err != nil {
			return fmt.Errorf("%s:%d: %v", ax.File, ax.Line, err)
		}
		g.assume(s)
		if g.E.axiomsUsed == nil {
			g.E.axiomsUsed = map[string]bool{}
		}
		g.E.axiomsUsed[name] = true
	}
	return nil
}

func (g *Gen) paramVal(name string, t types.Type) Val {
	if p, ok := t.Underlying().(*types.Pointer); ok {
		if _, isStruct := p.Elem().Underlying().(*types.Struct); !isStruct {
			h := fmt.Sprintf("cell.param.%s", sanitize(name))
			g.heapDecl(h, g.sortOf(p.Elem()))
			g.escaped[h] = true
			return Val{T: t, S: "1", Addr: &Addr{Kind: "cell", Heap: h, ElemT: p.Elem()}}
		}
	}
	n := "p." + sanitize(name)
	g.emit("(declare-const %s %s)", n, g.sortOf(t))
	v := Val{T: t, S: n}
	g.assume(g.rangeOf(t, n, g.cur))
	return v
}

// fnEnv is the environment for the function's own contract clauses.
func (g *Gen) fnEnv(st *State, results []Val) *Env {
	env := &Env{vars: map[string]Val{}, st: st, old: g.entry, pkg: g.fn.Pkg.Pkg}
	for k, v := range g.params {
		env.vars[k] = v
	}
	// a captured variable of a closure is passed as a pointer to its cell; in the closure's own contract its name
	// denotes the variable's value, as it does in the source (name0: its value when the closure was entered)
	for _, fv := range g.fn.FreeVars {
		v, ok := g.params[fv.Name()]
		if !ok || v.Addr == nil || v.Addr.Kind != "cell" {
			continue
		}
		save := g.cur
		env.vars[fv.Name()] = g.loadQuiet(st, v, v.Addr.ElemT)
		if g.entry != nil {
			env.vars[fv.Name()+"0"] = g.loadQuiet(g.entry, v, v.Addr.ElemT)
		}
		g.cur = save
	}
	if results != nil {
		sig := g.fn.Signature
		var names []string
		if g.fc != nil {
			if r, ok := g.fc.Opts["results"]; ok {
				names = strings.Split(r, ",")
			}
		}
		for i, v := range results {
			env.vars[fmt.Sprintf("r%d", i)] = v
			if i < len(names) {
				env.vars[names[i]] = v
			} else if nm := sig.Results().At(i).Name(); nm != "" && nm != "_" {
				env.vars[nm] = v
			}
		}
		if len(results) == 1 {
			env.vars["result"] = results[0]
		}
	}
	return env
}

func (g *Gen) runBody() {
	for _, b := range g.order {
		if li, ok := g.loops[b]; ok {
			g.enterLoop(b, li)
		} else if b != g.fn.Blocks[0] {
			edges := g.inEdges(b, false)
			st := g.mergeStates(b, edges)
			g.cur = st
			for _, in := range b.Instrs {
				phi, ok := in.(*ssa.Phi)
				if !ok {
					break
				}
				if len(edges) == 0 {
					g.vals[phi] = g.havocVal(phi.Type(), "phi.dead")
				} else {
					g.vals[phi] = g.phiValue(phi, edges)
				}
			}
		}
		for _, in := range b.Instrs {
			g.curInstr = in
			g.exec(in)
		}
		g.blockEnd[b] = g.cur
		// back edges leaving b
		for si, s := range b.Succs {
			if s.Dominates(b) {
				g.backEdge(b, s, si)
			}
		}
	}
}

// lookupVar finds the value of source variable `name` as of the end of block blk (idx = -1: whole block).
func (g *Gen) lookupVar(name string, blk *ssa.BasicBlock, idx int, st *State) (Val, bool) {
	refs := g.debugVals[name]
	if os.Getenv("VERIF_DEBUG_LOOKUP") == name {
		fmt.Fprintf(os.Stderr, "lookupVar %s blk=%v idx=%d refs=%d\n", name, blk, idx, len(refs))
		for _, r := range refs {
			_, have := g.vals[r.val]
			fmt.Fprintf(os.Stderr, "   ref blk=%v idx=%d addr=%v val=%s have=%v\n", r.blk, r.idx, r.addr, r.val.Name(), have)
		}
	}
	// several variables may share the name (shadowing): keep the one in scope at lookupPos
	if len(refs) > 1 && g.lookupPos.IsValid() {
		var best types.Object
		distinct := map[types.Object]bool{}
		for _, r := range refs {
			distinct[r.obj] = true
		}
		if len(distinct) > 1 {
			for o := range distinct {
				if sc := o.Parent(); sc != nil && sc.Contains(g.lookupPos) && o.Pos() <= g.lookupPos {
					if best == nil || o.Pos() > best.Pos() {
						best = o
					}
				}
			}
			if best != nil {
				var keep []debugRef
				for _, r := range refs {
					if r.obj == best {
						keep = append(keep, r)
					}
				}
				refs = keep
			}
		}
	}
	// a variable that lives in a cell (address taken, or a named result of a function with defers)
	// is read from the cell in the state the expression is evaluated in
	var cell *ssa.Alloc
	for _, l := range g.fn.Locals {
		if l.Comment != name {
			continue
		}
		if _, isStruct := l.Type().Underlying().(*types.Pointer).Elem().Underlying().(*types.Struct); isStruct && !g.isCellAlloc(l) {
			continue
		}
		if _, done := g.vals[l]; !done {
			continue
		}
		if cell == nil || (g.lookupPos.IsValid() && l.Pos() <= g.lookupPos && l.Pos() > cell.Pos()) {
			cell = l
		}
	}
	if cell != nil {
		p := g.val(cell)
		if p.Addr != nil {
			save := g.cur
			v := g.loadQuiet(st, p, p.Addr.ElemT)
			g.cur = save
			return v, true
		}
	}
	for _, r := range refs {
		if r.addr {
			if _, ok := g.vals[r.val]; !ok {
				if _, isGlobal := r.val.(*ssa.Global); !isGlobal {
					continue
				}
			}
			p := g.val(r.val)
			elem := r.val.Type().Underlying().(*types.Pointer).Elem()
			save := g.cur
			v := g.loadQuiet(st, p, elem)
			g.cur = save
			return v, true
		}
	}
	for b := blk; b != nil; b = b.Idom() {
		limit := len(b.Instrs)
		if b == blk && idx >= 0 {
			limit = idx
		}
		best := -1
		var bestRef debugRef
		for _, r := range refs {
			if r.blk == b && r.idx < limit && r.idx > best {
				best = r.idx
				bestRef = r
			}
		}
		// phis with that comment count as definitions at index -0.5
		var phiV ssa.Value
		for _, in := range b.Instrs {
			if phi, ok := in.(*ssa.Phi); ok {
				if phi.Comment == name {
					phiV = phi
				}
			} else {
				break
			}
		}
		if best >= 0 {
			if c, isConst := bestRef.val.(*ssa.Const); isConst && c.IsNil() {
				// x/tools v0.29.0 records the definition `m := map[K]V{}` (and []T{}) as "m is nil" next to the
				// make instruction; the variable's other references name the made value.  Use it when it was made
				// within a few instructions of this reference in the same block (and has been executed).
				for _, r2 := range refs {
					in, isInstr := r2.val.(ssa.Instruction)
					if !isInstr || r2.obj != bestRef.obj || in.Block() != b {
						continue
					}
					switch r2.val.(type) {
					case *ssa.MakeMap, *ssa.MakeSlice, *ssa.Slice:
					default:
						continue
					}
					at := -1
					for k, x := range b.Instrs {
						if x == in {
							at = k
						}
					}
					if _, have := g.vals[r2.val]; have && at >= 0 && at < limit && at-best <= 4 && best-at <= 4 {
						return g.val(r2.val), true
					}
				}
			}
			if bestRef.addr {
				p := g.val(bestRef.val)
				elem := bestRef.val.Type().Underlying().(*types.Pointer).Elem()
				save := g.cur
				v := g.loadQuiet(st, p, elem)
				g.cur = save
				return v, true
			}
			return g.val(bestRef.val), true
		}
		if phiV != nil {
			return g.val(phiV), true
		}
	}
	return Val{}, false
}

// loadQuiet loads without emitting assumptions (used in contract evaluation).
func (g *Gen) loadQuiet(st *State, p Val, elem types.Type) Val {
	if p.Addr != nil {
		return Val{T: elem, S: g.addrTerm(st, p.Addr)}
	}
	if _, ok := elem.Underlying().(*types.Struct); ok {
		return Val{T: elem, S: g.loadStruct(st, elem, p.S)}
	}
	return Val{T: elem, S: "0"}
}

func (g *Gen) loopEnv(li *loopInfo, st *State, phiVals map[string]Val, blk *ssa.BasicBlock) *Env {
	env := g.fnEnv(st, nil)
	g.lookupPos = token.NoPos
	if li.header != nil {
		for _, in := range li.header.Instrs {
			if in.Pos().IsValid() {
				g.lookupPos = in.Pos()
				break
			}
		}
	}
	env.lookup = func(name string) (Val, bool) {
		if v, ok := phiVals[name]; ok {
			return v, true
		}
		if v, ok := g.lookupVar(name, blk, -1, st); ok {
			return v, true
		}
		return Val{}, false
	}
	// a parameter that the function reassigns before the loop: its name denotes the current value
	// (the entry value stays available as name0)
	for name := range g.params {
		if strings.HasSuffix(name, "0") {
			if _, isParam := g.params[strings.TrimSuffix(name, "0")]; isParam {
				continue
			}
		}
		if _, isPhi := phiVals[name]; isPhi {
			continue
		}
		if len(g.debugVals[name]) == 0 {
			continue
		}
		if v, ok := g.lookupVar(name, blk, -1, st); ok {
			env.vars[name] = v
		}
	}
	// header phis shadow parameters of the same name
	for n, v := range phiVals {
		env.vars[n] = v
	}
	// rangeslice: the slice a `for ... range slice` loop iterates over (often an unnamed call result); found through
	// the compiler-generated guard rangeindex+1 < len(slice) in the loop header
	if li.header != nil {
		for _, in := range li.header.Instrs {
			b, ok := in.(*ssa.BinOp)
			if !ok || b.Op != token.LSS {
				continue
			}
			inc, ok := b.X.(*ssa.BinOp)
			if !ok || inc.Op != token.ADD {
				continue
			}
			if phi, ok := inc.X.(*ssa.Phi); !ok || phi.Comment != "rangeindex" {
				continue
			}
			if call, ok := b.Y.(*ssa.Call); ok {
				if bi, ok := call.Call.Value.(*ssa.Builtin); ok && bi.Name() == "len" && len(call.Call.Args) == 1 {
					if _, done := g.vals[call.Call.Args[0]]; done {
						if _, isSlice := call.Call.Args[0].Type().Underlying().(*types.Slice); isSlice {
							env.vars["rangeslice"] = g.val(call.Call.Args[0])
						}
					}
				}
			}
		}
	}
	// iterators: visitedN refers to the N-th map range of the function
	for i, r := range g.iterOrd {
		it := g.iters[r]
		if it != nil && !it.str {
			ks := g.sortOf(it.mt.Key())
			env.vars[fmt.Sprintf("visited%d", i+1)] = Val{Sort: "(Array " + ks + " Bool)", S: g.heapGet(st, it.visited)}
			env.vars[fmt.Sprintf("dom0_%d", i+1)] = Val{Sort: "(Array " + ks + " Bool)", S: it.dom0}
			// rangemapN: the map the N-th range statement iterates over (often an unnamed call result)
			env.vars[fmt.Sprintf("rangemap%d", i+1)] = Val{T: it.mt, S: it.m}
			if it.count != "" {
				// nvisitedN: how many entries the N-th range statement has yielded so far
				env.vars[fmt.Sprintf("nvisited%d", i+1)] = Val{T: types.Typ[types.Int], S: g.heapGet(st, it.count)}
			}
		}
	}
	return env
}

func (g *Gen) enterLoop(h *ssa.BasicBlock, li *loopInfo) {
	edges := g.inEdges(h, false)
	entry := g.mergeStates(h, edges)
	g.cur = entry
	var phis []*ssa.Phi
	for _, in := range h.Instrs {
		if phi, ok := in.(*ssa.Phi); ok {
			phis = append(phis, phi)
		} else {
			break
		}
	}
	// 1. invariant holds on entry
	phiVals := map[string]Val{}
	entryVals := map[*ssa.Phi]Val{}
	for _, phi := range phis {
		var v Val
		if len(edges) == 0 {
			v = g.havocVal(phi.Type(), "phi.dead")
		} else {
			v = g.phiValue(phi, edges)
		}
		entryVals[phi] = v
		if phi.Comment != "" {
			phiVals[phi.Comment] = v
		}
	}
	pred := h
	if len(edges) > 0 {
		pred = edges[0].pred
	}
	if li.lc != nil {
		env := g.loopEnv(li, entry, phiVals, pred)
		for i, inv := range li.lc.Invariants {
			if inv.E == nil {
				continue
			}
			s, err := g.evalBool(env, inv.E)
			if err != nil {
				g.E.fatalf("%s:%d: %v", inv.File, inv.Line, err)
				continue
			}
			g.oblige("inv0", fmt.Sprintf("loop%d:%s", li.ordinal, invLabel(inv, i)), s, h.Instrs[0].Pos(), inv.Text)
		}
		// `entry` clauses: facts about the state in which the loop is entered (what is being ranged over, for
		// instance); proved once, on entry, and not assumed inside the loop
		for i, ec := range li.lc.Entry {
			if ec.E == nil {
				continue
			}
			s, err := g.evalBool(env, ec.E)
			if err != nil {
				g.E.fatalf("%s:%d: %v", ec.File, ec.Line, err)
				continue
			}
			g.oblige("assert", fmt.Sprintf("%s @ entry of loop %d", invLabel(ec, i), li.ordinal), s, h.Instrs[0].Pos(), ec.Text)
		}
	}
	// 2. havoc loop-modified state
	st := entry.clone()
	g.cur = st
	g.cellMods, g.cellPaths = nil, nil
	g.loopTermBases = nil
	mods, all := g.loopModified(li)
	cellMods, cellPaths := g.cellMods, g.cellPaths
	termBases := g.loopTermBases
	g.loopTermBases = nil
	var pending []pendingFrame
	if all {
		g.havocAll(st, "loop")
	} else {
		names := make([]string, 0, len(mods))
		for n := range mods {
			names = append(names, n)
		}
		sort.Strings(names)
		for _, n := range names {
			if _, ok := g.heapSort[n]; !ok {
				continue
			}
			if n == "$alloc" {
				oa := g.heapGet(st, n)
				na := g.heapHavoc(st, n)
				g.assume(fmt.Sprintf("(<= %s %s)", oa, na))
				continue
			}
			oldT := g.heapGet(st, n)
			if fs := cellMods[n]; fs != nil && !fs[-1] && g.cellT[n] != nil {
				// a struct value of which the loop writes only some fields: the others keep their value
				if _, ok := g.cellT[n].Underlying().(*types.Struct); ok {
					term := oldT
					seenPath := map[string]bool{}
					for _, path := range cellPaths[n] {
						key := ""
						for _, ps := range path {
							key += fmt.Sprintf("%d.", ps.I)
						}
						if seenPath[key] || len(path) == 0 {
							continue
						}
						seenPath[key] = true
						last := path[len(path)-1]
						lt := last.T.Underlying().(*types.Struct).Field(last.I).Type()
						fv := g.havocVal(lt, "loop.fld")
						if fv.Addr != nil {
							term = ""
							break
						}
						term = g.define(n, g.heapSort[n], g.pathSet(term, path, fv.S))
					}
					if term != "" {
						g.heapSet(st, n, term)
						continue
					}
				}
			}
			nt := g.heapHavoc(st, n)
			pending = append(pending, pendingFrame{n, oldT, nt})
		}
		// frames are stated once every modified variable has its new value: a written object named by a term
		// (entries(x.f) of a callee's contract) is excluded only if that term denotes the same object before and
		// after the havoc, i.e. does not depend on anything the loop modifies
		for _, pf := range pending {
			var extra []string
			okTerms := true
			for _, fn := range termBases[pf.heap] {
				t1, ok1 := fn(entry)
				t2, ok2 := fn(st)
				if !ok1 || !ok2 || t1 != t2 {
					okTerms = false
					break
				}
				extra = append(extra, t1)
			}
			if !okTerms {
				continue
			}
			g.loopFrame(li, pf.heap, pf.oldT, pf.newT, entry, mods[pf.heap], extra)
		}
	}
	phiVals = map[string]Val{}
	for _, phi := range phis {
		v := g.havocVal(phi.Type(), "loop."+phi.Comment)
		g.vals[phi] = v
		if phi.Comment != "" {
			phiVals[phi.Comment] = v
		}
		if phi.Comment == "rangeindex" && g.mode == ModeInt {
			// compiler-generated index of `for range slice`: starts at -1, is only ever incremented by one
			// under the guard index+1 < len, so -1 <= index < len holds at the loop head (structural fact)
			for _, in := range h.Instrs {
				if b, ok := in.(*ssa.BinOp); ok && b.Op == token.LSS {
					if inc, ok := b.X.(*ssa.BinOp); ok && inc.Op == token.ADD && inc.X == ssa.Value(phi) {
						if _, inLoop := b.Y.(ssa.Instruction); !inLoop || !li.body[b.Y.(ssa.Instruction).Block()] {
							ln := g.val(b.Y)
							g.assume(fmt.Sprintf("(and (<= (- 1) %s) (or (< %s %s) (and (= %s (- 1)) (<= 0 %s))) (<= %s %d))", v.S, v.S, ln.S, v.S, ln.S, ln.S, maxLen))
						}
					}
				}
			}
		}
	}
	li.entrySt = entry
	// 3. assume the invariant for an arbitrary iteration
	if li.lc != nil {
		env := g.loopEnv(li, st, phiVals, pred)
		for _, inv := range li.lc.Invariants {
			if inv.E == nil {
				continue
			}
			s, err := g.evalBool(env, inv.E)
			if err != nil {
				continue
			}
			g.assume(s)
		}
		if li.lc.Decreases != nil && li.lc.Decreases.E != nil {
			v := g.eval(env, li.lc.Decreases.E)
			li.decEntry = v.S
		}
	}
}

func invLabel(c *Clause, i int) string {
	if c.Label != "" {
		return c.Label
	}
	return fmt.Sprintf("%d", i+1)
}

func (g *Gen) backEdge(from, h *ssa.BasicBlock, succIdx int) {
	li := g.loops[h]
	if li == nil || li.lc == nil {
		return
	}
	st := g.blockEnd[from]
	if st == nil || st.dead {
		return
	}
	// which pred index of h
	pidx := -1
	cnt := 0
	for _, s := range from.Succs[:succIdx] {
		if s == h {
			cnt++
		}
	}
	c := 0
	for i, p := range h.Preds {
		if p == from {
			if c == cnt {
				pidx = i
				break
			}
			c++
		}
	}
	save := g.cur
	be := st.clone()
	be.reach = and2(st.reach, edgeCond(g, from, h, succIdx))
	g.cur = be
	phiVals := map[string]Val{}
	for _, in := range h.Instrs {
		phi, ok := in.(*ssa.Phi)
		if !ok {
			break
		}
		if phi.Comment != "" && pidx >= 0 {
			phiVals[phi.Comment] = g.val(phi.Edges[pidx])
		}
	}
	env := g.loopEnv(li, be, phiVals, from)
	for i, inv := range li.lc.Invariants {
		if inv.E == nil {
			continue
		}
		s, err := g.evalBool(env, inv.E)
		if err != nil {
			g.E.fatalf("%s:%d: %v", inv.File, inv.Line, err)
			continue
		}
		g.oblige("inv+", fmt.Sprintf("loop%d:%s", li.ordinal, invLabel(inv, i)), s, lastPos(from), inv.Text)
	}
	if li.lc.Decreases != nil && li.lc.Decreases.E != nil && li.decEntry != "" {
		v := g.eval(env, li.lc.Decreases.E)
		g.oblige("dec", fmt.Sprintf("loop%d", li.ordinal), fmt.Sprintf("(and %s %s)", g.le(g.idxLit(0), li.decEntry), g.lt(v.S, li.decEntry)), from.Instrs[len(from.Instrs)-1].Pos(), li.lc.Decreases.Text)
	}
	g.cur = save
}

// loopModified computes the heap variables written inside the loop; for each, the SSA values
// of the (loop-invariant) base references written, or nil if some write has an unknown base.
func (g *Gen) loopModified(li *loopInfo) (map[string][]ssa.Value, bool) {
	mods := map[string][]ssa.Value{}
	unknown := map[string]bool{}
	all := false
	inLoop := func(v ssa.Value) bool {
		if in, ok := v.(ssa.Instruction); ok {
			return li.body[in.Block()]
		}
		return false
	}
	add := func(h string, base ssa.Value) {
		if base == nil {
			unknown[h] = true
			if _, ok := mods[h]; !ok {
				mods[h] = nil
			}
			return
		}
		for {
			if mi, ok := base.(*ssa.MakeInterface); ok {
				base = mi.X
				continue
			}
			if ct, ok := base.(*ssa.ChangeType); ok {
				base = ct.X
				continue
			}
			break
		}
		if inLoop(base) {
			if c, ok := base.(*ssa.Call); ok {
				if f, ok := c.Call.Value.(*ssa.Function); ok {
					if fc := g.E.contracts.Funcs[funcKey(f)]; fc != nil && fc.Opts["fresh"] == "true" {
						// the callee returns a freshly allocated object
						if _, ok := mods[h]; !ok {
							mods[h] = []ssa.Value{}
						}
						return
					}
				}
			}
			switch base.(type) {
			case *ssa.Alloc, *ssa.MakeSlice, *ssa.MakeMap:
				// fresh object: not visible before the loop
				if _, ok := mods[h]; !ok {
					mods[h] = []ssa.Value{}
				}
				return
			}
			if fn := g.mapTermBase(base, inLoop); fn != nil {
				// a reference the body loads from a field of an object defined outside the loop: named by a term
				if _, ok := mods[h]; !ok {
					mods[h] = []ssa.Value{}
				}
				if g.loopTermBases == nil {
					g.loopTermBases = map[string][]func(*State) (string, bool){}
				}
				g.loopTermBases[h] = append(g.loopTermBases[h], fn)
				return
			}
			unknown[h] = true
			if _, ok := mods[h]; !ok {
				mods[h] = nil
			}
			return
		}
		mods[h] = append(mods[h], base)
	}
	var addrHeaps func(a ssa.Value, elem types.Type)
	addrHeaps = func(a ssa.Value, elem types.Type) {
		switch x := a.(type) {
		case *ssa.FieldAddr:
			st := x.X.Type().Underlying().(*types.Pointer).Elem()
			f := st.Underlying().(*types.Struct).Field(x.Field)
			// walk to the root to decide between heap field and cell path
			root := ssa.Value(x)
			topField := x.Field
			var fullPath []pathStep
			for {
				if fa, ok := root.(*ssa.FieldAddr); ok {
					topField = fa.Field
					fullPath = append([]pathStep{{fa.X.Type().Underlying().(*types.Pointer).Elem(), fa.Field}}, fullPath...)
					root = fa.X
					continue
				}
				break
			}
			if al, ok := root.(*ssa.Alloc); ok {
				if _, isStruct := al.Type().Underlying().(*types.Pointer).Elem().Underlying().(*types.Struct); !isStruct || g.isCellAlloc(al) {
					name := g.cellName(al)
					add(name, nil)
					if isStruct {
						// remember which top-level field of the struct value is written
						if g.cellMods == nil {
							g.cellMods = map[string]map[int]bool{}
						}
						if g.cellMods[name] == nil {
							g.cellMods[name] = map[int]bool{}
						}
						g.cellMods[name][topField] = true
						if g.cellPaths == nil {
							g.cellPaths = map[string][][]pathStep{}
						}
						g.cellPaths[name] = append(g.cellPaths[name], fullPath)
					}
					return
				}
			}
			if ia, ok := root.(*ssa.IndexAddr); ok {
				addrHeaps(ia, nil)
				return
			}
			if _, isStruct := f.Type().Underlying().(*types.Struct); isStruct {
				var hs []string
				g.leafHeaps(f.Type(), &hs)
				for _, h := range hs {
					add(h, nil)
				}
				return
			}
			add(g.fieldHeap(st, x.Field), x.X)
		case *ssa.IndexAddr:
			switch bt := x.X.Type().Underlying().(type) {
			case *types.Slice:
				// the backing array of a slice value that does not change in the loop is a known base
				add(g.arrHeap(bt.Elem()), x.X)
			case *types.Pointer:
				add(g.arrHeap(bt.Elem().Underlying().(*types.Array).Elem()), x.X)
			}
		case *ssa.Alloc:
			et := x.Type().Underlying().(*types.Pointer).Elem()
			if _, isStruct := et.Underlying().(*types.Struct); isStruct && !g.isCellAlloc(x) {
				var hs []string
				g.leafHeaps(et, &hs)
				for _, h := range hs {
					add(h, x)
				}
				return
			}
			add(g.cellName(x), nil)
			g.markWholeCell(g.cellName(x))
		case *ssa.Global:
			v := g.globalVal(x)
			add(v.Addr.Heap, nil)
		default:
			if p, ok := a.Type().Underlying().(*types.Pointer); ok {
				if _, isStruct := p.Elem().Underlying().(*types.Struct); isStruct {
					var hs []string
					g.leafHeaps(p.Elem(), &hs)
					for _, h := range hs {
						add(h, nil)
					}
					return
				}
			}
			all = true
		}
	}
	for b := range li.body {
		for _, in := range b.Instrs {
			switch x := in.(type) {
			case *ssa.Store:
				addrHeaps(x.Addr, nil)
			case *ssa.MapUpdate:
				dom, val := g.mapHeaps(x.Map.Type().Underlying().(*types.Map))
				if fn := g.mapTermBase(x.Map, inLoop); fn != nil {
					// the map is read from a field of an object that does not change in the loop: named by a term
					// (its invariance is checked in enterLoop)
					for _, h := range []string{dom, val} {
						if _, ok := mods[h]; !ok {
							mods[h] = []ssa.Value{}
						}
						if g.loopTermBases == nil {
							g.loopTermBases = map[string][]func(*State) (string, bool){}
						}
						g.loopTermBases[h] = append(g.loopTermBases[h], fn)
					}
				} else if !inLoop(x.Map) {
					add(dom, x.Map)
					add(val, x.Map)
				} else {
					add(dom, nil)
					add(val, nil)
				}
			case *ssa.Alloc:
				add("$alloc", nil)
				et := x.Type().Underlying().(*types.Pointer).Elem()
				if g.isCellAlloc(x) {
					add(g.cellName(x), nil)
					g.markWholeCell(g.cellName(x))
				} else if _, isStruct := et.Underlying().(*types.Struct); isStruct {
					var hs []string
					g.leafHeaps(et, &hs)
					for _, h := range hs {
						add(h, x)
					}
				} else if arr, ok := et.Underlying().(*types.Array); ok {
					add(g.arrHeap(arr.Elem()), x)
				} else {
					add(g.cellName(x), nil)
				}
			case *ssa.MakeSlice:
				add("$alloc", nil)
				add(g.arrHeap(x.Type().Underlying().(*types.Slice).Elem()), x)
			case *ssa.MakeMap:
				add("$alloc", nil)
				dom, val := g.mapHeaps(x.Type().Underlying().(*types.Map))
				add(dom, x)
				add(val, x)
			case *ssa.MakeChan, *ssa.MakeInterface:
				// no heap effect in this model (MakeChan allocates)
				if _, ok := in.(*ssa.MakeChan); ok {
					add("$alloc", nil)
				}
			case *ssa.Range:
				// iterator state is created inside the loop
			case *ssa.Next:
				if r, ok := x.Iter.(*ssa.Range); ok {
					if it := g.iters[r]; it != nil && !it.str {
						add(it.visited, nil)
						if it.count != "" {
							add(it.count, nil)
						}
					}
				}
			case ssa.CallInstruction:
				if _, isGo := in.(*ssa.Go); isGo {
					continue
				}
				if _, isDefer := in.(*ssa.Defer); isDefer {
					continue
				}
				if f, ok := x.Common().Value.(*ssa.Function); ok && strings.HasPrefix(funcKey(f), "atomic.") && len(x.Common().Args) > 0 {
					if _, isPtr := x.Common().Args[0].Type().Underlying().(*types.Pointer); isPtr {
						// sync/atomic on a cell: a plain write to that cell
						addrHeaps(x.Common().Args[0], nil)
						continue
					}
				}
				if bi, ok := x.Common().Value.(*ssa.Builtin); ok && (bi.Name() == "append" || bi.Name() == "copy") {
					st := x.Common().Args[0].Type().Underlying().(*types.Slice)
					h := g.arrHeap(st.Elem())
					if bi.Name() == "append" {
						// the model gives append a fresh backing array: no object that existed before the loop is written
						add("$alloc", nil)
						if _, ok := mods[h]; !ok {
							mods[h] = []ssa.Value{}
						}
					} else {
						add(h, x.Common().Args[0])
					}
					continue
				}
				hs, a := g.callModifies(x.Common())
				if a {
					all = true
				}
				bases := g.callModBases(x.Common())
				tbases := g.callTermBases(x.Common(), inLoop)
				for _, h := range hs {
					if b, ok := bases[h]; ok && b != nil {
						add(h, b)
					} else if ts, ok := tbases[h]; ok && ts != nil {
						// the written object is named by a term over loop-invariant values (checked in enterLoop)
						if _, ok := mods[h]; !ok {
							mods[h] = []ssa.Value{}
						}
						if g.loopTermBases == nil {
							g.loopTermBases = map[string][]func(*State) (string, bool){}
						}
						g.loopTermBases[h] = append(g.loopTermBases[h], ts...)
					} else {
						add(h, nil)
					}
				}
			case *ssa.RunDefers:
				all = true
			}
		}
	}
	// a heap variable with a write whose target is not known gets no frame at all
	for h := range unknown {
		mods[h] = nil
	}
	return mods, all
}

// mapTermBase: for a map value that the loop body loads from a field obj.f, with obj defined outside the loop,
// the map's reference as a function of the state (nil if the value does not have that shape).
func (g *Gen) mapTermBase(m ssa.Value, inLoop func(ssa.Value) bool) func(*State) (string, bool) {
	if !inLoop(m) {
		return nil
	}
	ld, ok := m.(*ssa.UnOp)
	if !ok || ld.Op != token.MUL {
		return nil
	}
	fa, ok := ld.X.(*ssa.FieldAddr)
	if !ok || inLoop(fa.X) {
		return nil
	}
	st := fa.X.Type().Underlying().(*types.Pointer).Elem()
	f := st.Underlying().(*types.Struct).Field(fa.Field)
	if _, isStruct := f.Type().Underlying().(*types.Struct); isStruct {
		return nil
	}
	if g.sortOf(f.Type()) != "Int" {
		return nil // only references (pointers, maps, channels)
	}
	heap := g.fieldHeap(st, fa.Field)
	return func(s *State) (string, bool) {
		if _, isInstr := fa.X.(ssa.Instruction); isInstr {
			if _, done := g.vals[fa.X]; !done {
				return "", false
			}
		}
		base := g.val(fa.X)
		if base.Addr != nil {
			return "", false
		}
		return fmt.Sprintf("(select %s %s)", g.heapGet(s, heap), base.S), true
	}
}

// callTermBases: for a call whose contract modifies `entries(e)` / `contents(e)` with e built from parameters whose
// actual arguments are defined outside the loop, the reference of the written object as a function of the state.
// A nil entry means some location of that heap variable could not be resolved.
func (g *Gen) callTermBases(c *ssa.CallCommon, inLoop func(ssa.Value) bool) map[string][]func(*State) (string, bool) {
	out := map[string][]func(*State) (string, bool){}
	var key string
	var actuals []ssa.Value
	var names []string
	var fc *FuncContract
	if c.IsInvoke() {
		// a call through an interface: the contract of the interface method (io.Reader.Read), parameters by its params option
		key = methodKey(c.Value.Type(), c.Method.Name())
		fc = g.E.contracts.Funcs[key]
		if fc == nil || fc.Opts["params"] == "" {
			return out
		}
		names = strings.Split(fc.Opts["params"], ",")
		actuals = append(actuals, c.Value)
		actuals = append(actuals, c.Args...)
	} else {
		f, ok := c.Value.(*ssa.Function)
		if !ok {
			return out
		}
		key = funcKey(f)
		fc = g.E.contracts.Funcs[key]
		if fc == nil || fc.Opts["inline"] == "true" {
			return out
		}
		if f.Signature.Recv() != nil {
			names = append(names, f.Signature.Recv().Name())
		}
		for i := 0; i < f.Signature.Params().Len(); i++ {
			names = append(names, f.Signature.Params().At(i).Name())
		}
		if p, ok := fc.Opts["params"]; ok {
			names = strings.Split(p, ",")
		}
		actuals = append(actuals, c.Args...)
	}
	// an argument p[a:b] computed inside the loop from a slice defined outside it shares that slice's backing array:
	// for naming the written object (contents(p)) the outer slice will do
	for i, a := range actuals {
		if sl, isSlice := a.(*ssa.Slice); isSlice && inLoop(a) && !inLoop(sl.X) {
			if _, ok := sl.X.Type().Underlying().(*types.Slice); ok {
				actuals[i] = sl.X
			}
		}
	}
	bad := map[string]bool{}
	for _, m := range fc.Modifies {
		for _, le := range m.Es {
			call, isCall := le.(*ECall)
			hs := g.locHeaps(key, le)
			ghostFld := false
			if fld, isFld := le.(*EField); isFld {
				if gd, ok := g.E.contracts.Ghosts[fld.Name]; ok && gd.Kind == "field" {
					if _, simple := fld.X.(*EIdent); !simple {
						ghostFld = true // ghost field of an object reached through fields (x.f.ghost): named by a term
					}
				}
			}
			if !ghostFld && (!isCall || (call.Fun != "entries" && call.Fun != "contents") || len(call.Args) != 1) {
				if isCall && call.Fun == "allentries" {
					for _, h := range hs {
						bad[h] = true
					}
				}
				continue
			}
			le := le
			fn := func(st *State) (res string, ok bool) {
				defer func() {
					if r := recover(); r != nil {
						if _, isEval := r.(evalErr); isEval {
							res, ok = "", false
							return
						}
						panic(r)
					}
				}()
				env := &Env{vars: map[string]Val{}, st: st, old: st, pkg: g.pkgOfKey(key)}
				for i, n := range names {
					if i < len(actuals) && !inLoop(actuals[i]) {
						if _, isInstr := actuals[i].(ssa.Instruction); isInstr {
							if _, done := g.vals[actuals[i]]; !done {
								continue
							}
						}
						env.vars[n] = g.val(actuals[i])
					} else if i < len(actuals) {
						// an argument the loop body loads through fields of an object defined outside the loop
						// (cl.State.Inflight): its value as a function of the state
						if s, ok := g.fieldPathTerm(actuals[i], inLoop, st); ok {
							env.vars[n] = Val{T: actuals[i].Type(), S: s}
						}
					}
				}
				_, idx, whole, err := g.locOf(env, le)
				if err != nil || whole || idx == "" {
					return "", false
				}
				return idx, true
			}
			for _, h := range hs {
				out[h] = append(out[h], fn)
			}
		}
	}
	for h := range bad {
		out[h] = nil
	}
	return out
}

// fieldPathTerm: the value of v in state st when v is computed, possibly inside a loop, by loading through fields of an
// object that is defined outside the loop (cl.State.Inflight, x.root.particles): a pure function of the heap.  The
// reference of an embedded struct is its sub-reference; a pointer-typed field is read from its field heap in st.
func (g *Gen) fieldPathTerm(v ssa.Value, inLoop func(ssa.Value) bool, st *State) (string, bool) {
	if !inLoop(v) {
		if _, isInstr := v.(ssa.Instruction); isInstr {
			if _, done := g.vals[v]; !done {
				return "", false
			}
		}
		val := g.val(v)
		if val.Addr != nil {
			return "", false
		}
		return val.S, true
	}
	switch x := v.(type) {
	case *ssa.FieldAddr:
		// only addresses of embedded structs are values here (their sub-reference); other field addresses are loaded below
		stT := x.X.Type().Underlying().(*types.Pointer).Elem()
		f := stT.Underlying().(*types.Struct).Field(x.Field)
		if _, isStruct := f.Type().Underlying().(*types.Struct); !isStruct {
			return "", false
		}
		base, ok := g.fieldPathTerm(x.X, inLoop, st)
		if !ok {
			return "", false
		}
		return g.subRef(stT, x.Field, base), true
	case *ssa.UnOp:
		if x.Op != token.MUL {
			return "", false
		}
		fa, ok := x.X.(*ssa.FieldAddr)
		if !ok {
			return "", false
		}
		stT := fa.X.Type().Underlying().(*types.Pointer).Elem()
		f := stT.Underlying().(*types.Struct).Field(fa.Field)
		if _, isStruct := f.Type().Underlying().(*types.Struct); isStruct || g.sortOf(f.Type()) != "Int" {
			return "", false // only references (pointers, maps, channels)
		}
		base, ok := g.fieldPathTerm(fa.X, inLoop, st)
		if !ok {
			return "", false
		}
		return fmt.Sprintf("(select %s %s)", g.heapGet(st, g.fieldHeap(stT, fa.Field)), base), true
	}
	return "", false
}

func (g *Gen) cellName(x *ssa.Alloc) string {
	name := fmt.Sprintf("cell.%s.%s", sanitize(x.Parent().Name()), x.Name())
	if x.Comment != "" {
		name += "." + sanitize(x.Comment)
	}
	elem := x.Type().Underlying().(*types.Pointer).Elem()
	g.heapDecl(name, g.sortOf(elem))
	if g.cellT == nil {
		g.cellT = map[string]types.Type{}
	}
	g.cellT[name] = elem
	return name
}

func (g *Gen) markWholeCell(name string) {
	if g.cellMods == nil {
		g.cellMods = map[string]map[int]bool{}
	}
	if g.cellMods[name] == nil {
		g.cellMods[name] = map[int]bool{}
	}
	g.cellMods[name][-1] = true
}

// callModifies lists heap variables a call may modify (coarsely: whole variables).
func (g *Gen) callModifies(c *ssa.CallCommon) ([]string, bool) {
	if b, ok := c.Value.(*ssa.Builtin); ok {
		switch b.Name() {
		case "append":
			st := c.Args[0].Type().Underlying().(*types.Slice)
			return []string{"$alloc", g.arrHeap(st.Elem())}, false
		case "copy":
			st := c.Args[0].Type().Underlying().(*types.Slice)
			return []string{g.arrHeap(st.Elem())}, false
		case "delete":
			dom, _ := g.mapHeaps(c.Args[0].Type().Underlying().(*types.Map))
			return []string{dom}, false
		}
		return nil, false
	}
	var key string
	if c.IsInvoke() {
		key = methodKey(c.Value.Type(), c.Method.Name())
	} else if f, ok := c.Value.(*ssa.Function); ok {
		key = funcKey(f)
	} else if mc, ok := c.Value.(*ssa.MakeClosure); ok {
		// inlined closure: scan its body
		fn := mc.Fn.(*ssa.Function)
		if g.E.contracts.Funcs[funcKey(fn)] == nil {
			sub := &loopInfo{body: map[*ssa.BasicBlock]bool{}}
			for _, b := range fn.Blocks {
				sub.body[b] = true
			}
			m, all := g.loopModified(sub)
			var hs []string
			for h := range m {
				hs = append(hs, h)
			}
			return hs, all
		}
		key = funcKey(fn)
	}
	fc := g.E.contracts.Funcs[key]
	if fc == nil {
		if key != "" && g.E.effectFree(key) {
			return nil, false
		}
		return nil, true
	}
	if fc.Opts["modifies"] == "all" {
		return nil, true
	}
	if fc.Opts["inline"] == "true" {
		if f, ok := c.Value.(*ssa.Function); ok {
			sub := &loopInfo{body: map[*ssa.BasicBlock]bool{}}
			for _, b := range f.Blocks {
				sub.body[b] = true
			}
			m, all := g.loopModified(sub)
			var hs []string
			for h := range m {
				hs = append(hs, h)
			}
			return hs, all
		}
	}
	var hs []string
	if fc.Opts["pure"] != "true" {
		hs = append(hs, "$alloc")
	}
	for _, m := range fc.Modifies {
		for _, le := range m.Es {
			hs = append(hs, g.locHeaps(key, le)...)
		}
	}
	return hs, false
}

// callModBases: for a call with a contract whose modifies clauses have the shape param.field,
// the SSA value of the actual argument per heap variable (nil when several or unknown).
func (g *Gen) callModBases(c *ssa.CallCommon) map[string]ssa.Value {
	out := map[string]ssa.Value{}
	var key string
	var actuals []ssa.Value
	var names []string
	if c.IsInvoke() {
		key = methodKey(c.Value.Type(), c.Method.Name())
		actuals = append(actuals, c.Value)
		names = append(names, "self")
		sig := c.Method.Type().(*types.Signature)
		for i := 0; i < sig.Params().Len(); i++ {
			names = append(names, sig.Params().At(i).Name())
		}
	} else if f, ok := c.Value.(*ssa.Function); ok {
		key = funcKey(f)
		if f.Signature.Recv() != nil {
			names = append(names, f.Signature.Recv().Name())
		}
		for i := 0; i < f.Signature.Params().Len(); i++ {
			names = append(names, f.Signature.Params().At(i).Name())
		}
	} else {
		return out
	}
	actuals = append(actuals, c.Args...)
	fc := g.E.contracts.Funcs[key]
	if fc == nil {
		return out
	}
	if p, ok := fc.Opts["params"]; ok {
		names = strings.Split(p, ",")
	}
	seen := map[string]int{}
	for _, m := range fc.Modifies {
		for _, le := range m.Es {
			hs := g.locHeaps(key, le)
			var base ssa.Value
			var baseE Expr
			switch x := le.(type) {
			case *EField:
				baseE = x.X
			case *ECall:
				if len(x.Args) == 1 {
					baseE = x.Args[0]
				}
			}
			if id, ok := baseE.(*EIdent); ok {
				for i, n := range names {
					if n == id.Name && i < len(actuals) {
						base = actuals[i]
					}
				}
			}
			if c, ok := le.(*ECall); ok && c.Fun == "fields" && base != nil {
				// embedded structs live at sub-references: a single base does not describe them
				if pt, ok := base.Type().Underlying().(*types.Pointer); ok {
					if st, ok := pt.Elem().Underlying().(*types.Struct); ok {
						for i := 0; i < st.NumFields(); i++ {
							if _, nested := st.Field(i).Type().Underlying().(*types.Struct); nested {
								base = nil
								break
							}
						}
					}
				}
			}
			for _, h := range hs {
				seen[h]++
				if seen[h] > 1 || base == nil {
					out[h] = nil
				} else {
					out[h] = base
				}
			}
		}
	}
	return out
}

// locHeaps: the heap variables a modifies location can touch (syntactic, by name).
func (g *Gen) locHeaps(key string, le Expr) []string {
	switch x := le.(type) {
	case *EField:
		if gd, ok := g.E.contracts.Ghosts[x.Name]; ok && gd.Kind == "field" {
			h, _, _, _ := g.ghostHeap(gd)
			return []string{h}
		}
		// resolve field name against every declared field heap with that field name
		var hs []string
		suffix := "." + sanitize(x.Name)
		// make sure the heaps exist: find the type through the callee's signature is expensive;
		// use a conservative name match over all struct types of loaded packages.
		for _, h := range g.E.fieldHeapsNamed(g, x.Name) {
			if strings.HasSuffix(h, suffix) || true {
				hs = append(hs, h)
			}
		}
		return hs
	case *ECall:
		if gd, ok := g.E.contracts.Ghosts[x.Fun]; ok && gd.Kind == "field" {
			h, _, _, _ := g.ghostHeap(gd)
			return []string{h}
		}
		switch x.Fun {
		case "contents":
			var hs []string
			for h := range g.heapSort {
				if strings.HasPrefix(h, "Harr.") {
					hs = append(hs, h)
				}
			}
			hs = append(hs, g.arrHeap(types.Typ[types.Uint8]))
			return hs
		case "allentries":
			if mt, err := g.mapTypeOf(x); err == nil {
				dom, val := g.mapHeaps(mt)
				return []string{dom, val}
			}
		case "entries":
			if len(x.Args) == 1 {
				if t := g.staticType(key, x.Args[0]); t != nil {
					if mt, ok := t.Underlying().(*types.Map); ok {
						dom, val := g.mapHeaps(mt)
						return []string{dom, val}
					}
				}
			}
			var hs []string
			for h := range g.heapSort {
				if strings.HasPrefix(h, "Mdom.") || strings.HasPrefix(h, "Mval.") {
					hs = append(hs, h)
				}
			}
			return hs
		case "all":
			if f, ok := x.Args[0].(*EField); ok {
				if h, ok := g.allFieldHeap(f); ok {
					return []string{h}
				}
				return g.E.fieldHeapsNamed(g, f.Name)
			}
			if id, ok := x.Args[0].(*EIdent); ok {
				if gd, ok := g.E.contracts.Ghosts[id.Name]; ok && gd.Kind == "field" {
					h, _, _, _ := g.ghostHeap(gd)
					return []string{h}
				}
			}
		case "fields":
			var hs []string
			if id, ok := x.Args[0].(*EIdent); ok {
				if f := g.E.funcs[key]; f != nil {
					for _, p := range f.Params {
						if p.Name() == id.Name {
							if pt, ok := p.Type().Underlying().(*types.Pointer); ok {
								if _, ok := pt.Elem().Underlying().(*types.Struct); ok {
									g.leafHeaps(pt.Elem(), &hs)
									return hs
								}
							}
						}
					}
				}
			}
			for h := range g.heapSort {
				if strings.HasPrefix(h, "F.") {
					hs = append(hs, h)
				}
			}
			return hs
		}
	case *EIdent:
		if gd, ok := g.E.contracts.Ghosts[x.Name]; ok && gd.Kind == "var" {
			_, s := g.specType(gd.Sort)
			g.heapDecl("ghost."+x.Name, s)
			return []string{"ghost." + x.Name}
		}
		var hs []string
		for h := range g.heapSort {
			if strings.HasPrefix(h, "cell.") {
				hs = append(hs, h)
			}
		}
		return hs
	}
	return nil
}

// loopFrame: objects that existed before the loop and are not written in it keep their fields.
type pendingFrame struct{ heap, oldT, newT string }

func (g *Gen) loopFrame(li *loopInfo, heap, oldT, newT string, entry *State, bases []ssa.Value, extra []string) {
	if bases == nil {
		return // some write has an unknown base: no frame knowledge
	}
	srt := g.heapSort[heap]
	if !strings.HasPrefix(srt, "(Array ") {
		return
	}
	owner := strings.Fields(strings.TrimPrefix(srt, "(Array "))[0]
	var exc []string
	for _, b := range bases {
		v := g.val(b)
		if v.Addr != nil {
			return
		}
		if v.T != nil {
			if _, isSlice := v.T.Underlying().(*types.Slice); isSlice {
				v = Val{Sort: "Int", S: "(sl.ref " + v.S + ")"}
			}
		}
		v = g.ghostOwner(v, owner)
		exc = append(exc, fmt.Sprintf("(not (= r %s))", v.S))
	}
	for _, t := range extra {
		exc = append(exc, fmt.Sprintf("(not (= r %s))", t))
	}
	bound := "true"
	if owner == "Int" {
		bound = fmt.Sprintf("(and (< r %s) (< (ref.root r) %s))", g.heapGet(entry, "$alloc"), g.heapGet(entry, "$alloc"))
	} else if strings.HasPrefix(owner, "(") {
		return
	}
	g.assume(fmt.Sprintf("(forall ((r %s)) (! (=> (and %s %s true) (= (select %s r) (select %s r))) :pattern ((select %s r))))",
		owner, bound, strings.Join(exc, " "), newT, oldT, newT))
}

func (g *Gen) doReturn(x *ssa.Return) {
	var results []Val
	for _, r := range x.Results {
		results = append(results, g.val(r))
	}
	if g.inlineMode {
		g.rets = append(g.rets, retInfo{st: g.cur, vals: results, cond: g.cur.reach})
		return
	}
	if g.fc == nil {
		return
	}
	env := g.fnEnv(g.cur, results)
	for i, en := range g.fc.Ensures {
		if en.E == nil || en.Kind == "axiom" {
			continue
		}
		s, err := g.evalBool(env, en.E)
		if err != nil {
			g.E.fatalf("%s:%d: %v", en.File, en.Line, err)
			continue
		}
		label := en.Label
		if label == "" {
			label = fmt.Sprintf("%d", i+1)
		}
		if mask, ok := g.E.masks[fmt.Sprintf("%s#post:%s", g.key, label)]; ok && mask != nil {
			// a recorded finding with a mask: the claim is "post OR mask" (so that any other violation of
			// the same conjunct is still caught); the unmasked conjunct is probed to see whether the
			// finding is still present
			m, err := g.evalBool(env, mask)
			if err != nil {
				g.E.fatalf("known_findings mask for %s#post:%s: %v", g.key, label, err)
			} else {
				if o := g.oblige("post", label, "(or "+s+" "+m+")", x.Pos(), en.Text+"   [masked by known finding: "+mask.String()+"]"); o != nil {
					o.Masked = true
				}
				if p := g.oblige("probe", label, s, x.Pos(), en.Text); p != nil {
					p.Probe = true
				}
				continue
			}
		}
		g.oblige("post", label, s, x.Pos(), en.Text)
	}
	g.frameObligations(x.Pos())
	if g.E.coverReturns {
		g.oblige("cover", "return-reachable", "true", x.Pos(), "").Cover = true
	}
}

// frameObligations: every heap variable the function changed must be covered by `modifies`.
func (g *Gen) frameObligations(pos token.Pos) {
	if g.fc == nil || g.fc.Opts["modifies"] == "all" || g.fc.Opts["noframe"] == "true" {
		return
	}
	// allowed locations, evaluated in the entry state
	type loc struct{ heap, idx string }
	type rloc struct{ heap, idx, lo, hi string }
	var allowed []loc
	var ranged []rloc
	wholeVar := map[string]bool{}
	env := g.fnEnv(g.entry, nil)
	for _, m := range g.fc.Modifies {
		for _, le := range m.Es {
			if c, ok := le.(*ECall); ok && c.Fun == "fields" && len(c.Args) == 1 {
				v, err := g.evalVal(env, c.Args[0])
				if err != nil {
					g.E.fatalf("%s:%d: %v", m.File, m.Line, err)
					continue
				}
				if pt, ok := v.T.Underlying().(*types.Pointer); ok && v.Addr == nil {
					var walk func(t types.Type, r string)
					walk = func(t types.Type, r string) {
						s := t.Underlying().(*types.Struct)
						for i := 0; i < s.NumFields(); i++ {
							if _, isStruct := s.Field(i).Type().Underlying().(*types.Struct); isStruct {
								walk(s.Field(i).Type(), g.subRef(t, i, r))
							} else {
								allowed = append(allowed, loc{g.fieldHeap(t, i), r})
							}
						}
					}
					walk(pt.Elem(), v.S)
				}
				continue
			}
			heaps, idx, whole, err := g.locOf(env, le)
			if err != nil {
				g.E.fatalf("%s:%d: %v", m.File, m.Line, err)
				continue
			}
			if c, ok := le.(*ECall); ok && c.Fun == "contents" && len(c.Args) == 1 && len(heaps) == 1 {
				// contents(s): only s[0] .. s[len(s)-1] of the backing array (what callers assume, see havocLoc)
				if v, err := g.evalVal(env, c.Args[0]); err == nil {
					lo := "(sl.off " + v.S + ")"
					ranged = append(ranged, rloc{heaps[0], idx, lo, g.add(lo, "(sl.len "+v.S+")")})
					continue
				}
			}
			for _, h := range heaps {
				if whole {
					wholeVar[h] = true
				} else {
					allowed = append(allowed, loc{h, idx})
				}
			}
		}
	}
	names := make([]string, 0, len(g.cur.store))
	for n := range g.cur.store {
		names = append(names, n)
	}
	sort.Strings(names)
	var fieldGoals []string
	for _, n := range names {
		if n == "$alloc" || strings.HasPrefix(n, "iter.") || wholeVar[n] {
			continue
		}
		if strings.HasPrefix(n, "cell.") && !strings.HasPrefix(n, "cell.param.") {
			continue
		}
		cur := g.heapGet(g.cur, n)
		ent := g.heapGet(nil, n)
		if cur == ent {
			continue
		}
		srt := g.heapSort[n]
		if !strings.HasPrefix(srt, "(Array ") {
			// scalar cell (global, ghost var, parameter cell)
			g.oblige("frame", n, fmt.Sprintf("(= %s %s)", cur, ent), pos, "")
			continue
		}
		if owner := strings.Fields(strings.TrimPrefix(srt, "(Array "))[0]; owner != "Int" && !strings.HasPrefix(owner, "(") {
			var exc []string
			for _, l := range allowed {
				if l.heap == n {
					exc = append(exc, fmt.Sprintf("(not (= r %s))", l.idx))
				}
			}
			g.oblige("frame", n, fmt.Sprintf("(forall ((r %s)) (=> (and %s true) (= (select %s r) (select %s r))))", owner, strings.Join(exc, " "), cur, ent), pos, "")
			continue
		}
		var exc []string
		for _, l := range allowed {
			if l.heap == n {
				exc = append(exc, fmt.Sprintf("(not (= r %s))", l.idx))
			}
		}
		var rexc []string
		for _, l := range ranged {
			if l.heap == n {
				rexc = append(rexc, fmt.Sprintf("(not (and (= r %s) %s %s))", l.idx, g.le(l.lo, "j"), g.lt("j", l.hi)))
			}
		}
		// objects allocated by this call are not part of the caller-visible frame
		goal := fmt.Sprintf("(forall ((r Int)) (=> (and (< r |$alloc@0|) (< (ref.root r) |$alloc@0|) %s true) (= (select %s r) (select %s r))))", strings.Join(exc, " "), cur, ent)
		if len(rexc) > 0 {
			// element-wise: of the arrays named by contents(s) only the elements of s may differ
			goal = fmt.Sprintf("(forall ((r Int) (j %s)) (=> (and (< r |$alloc@0|) (< (ref.root r) |$alloc@0|) %s %s true) (= (select (select %s r) j) (select (select %s r) j))))", g.idxSort(), strings.Join(exc, " "), strings.Join(rexc, " "), cur, ent)
		}
		if strings.HasPrefix(n, "F.") {
			// struct field heaps: one obligation per return for all of them together
			fieldGoals = append(fieldGoals, goal)
			continue
		}
		g.oblige("frame", n, goal, pos, "")
	}
	if len(fieldGoals) > 0 {
		g.oblige("frame", "struct-fields", "(and "+strings.Join(fieldGoals, " ")+" true)", pos, "every struct field not listed in `modifies` keeps its value on objects that existed at entry")
	}
}

func (g *Gen) evalVal(env *Env, e Expr) (v Val, err error) {
	defer func() {
		if r := recover(); r != nil {
			if ee, ok := r.(evalErr); ok {
				err = fmt.Errorf("%s", string(ee))
				return
			}
			panic(r)
		}
	}()
	return g.eval(env, e), nil
}

// locOf resolves a modifies location to heap variable(s) and index term.
func (g *Gen) locOf(env *Env, le Expr) (heaps []string, idx string, whole bool, err error) {
	defer func() {
		if r := recover(); r != nil {
			if ee, ok := r.(evalErr); ok {
				err = fmt.Errorf("%s", string(ee))
				return
			}
			panic(r)
		}
	}()
	switch x := le.(type) {
	case *EField:
		if gd, ok := g.E.contracts.Ghosts[x.Name]; ok && gd.Kind == "field" {
			h, owner, _, _ := g.ghostHeap(gd)
			return []string{h}, g.ghostOwner(g.eval(env, x.X), owner).S, false, nil
		}
		base := g.eval(env, x.X)
		var pkg *types.Package
		if n, ok := derefNamed(base.T); ok && n.Obj().Pkg() != nil {
			pkg = n.Obj().Pkg()
		}
		obj, path, _ := types.LookupFieldOrMethod(base.T, true, pkg, x.Name)
		if obj == nil {
			return nil, "", false, fmt.Errorf("modifies %s: no such field", le)
		}
		cur := base
		for _, i := range path[:len(path)-1] {
			cur = g.fieldStep(env, cur, i)
		}
		last := path[len(path)-1]
		p, ok := cur.T.Underlying().(*types.Pointer)
		if !ok || cur.Addr != nil {
			return nil, "", false, fmt.Errorf("modifies %s: base is not a reference", le)
		}
		st := p.Elem()
		f := st.Underlying().(*types.Struct).Field(last)
		if _, isStruct := f.Type().Underlying().(*types.Struct); isStruct {
			// every leaf under the embedded struct; approximated as whole-variable permission at that sub-reference
			var hs []string
			g.leafHeaps(f.Type(), &hs)
			return hs, g.subRef(st, last, cur.S), false, nil
		}
		return []string{g.fieldHeap(st, last)}, cur.S, false, nil
	case *ECall:
		if gd, ok := g.E.contracts.Ghosts[x.Fun]; ok && gd.Kind == "field" && len(x.Args) == 1 {
			h, owner, _, _ := g.ghostHeap(gd)
			return []string{h}, g.ghostOwner(g.eval(env, x.Args[0]), owner).S, false, nil
		}
		switch x.Fun {
		case "contents":
			v := g.eval(env, x.Args[0])
			sl := v.T.Underlying().(*types.Slice)
			return []string{g.arrHeap(sl.Elem())}, "(sl.ref " + v.S + ")", false, nil
		case "allentries":
			mt, err := g.mapTypeOf(x)
			if err != nil {
				return nil, "", false, err
			}
			dom, val := g.mapHeaps(mt)
			return []string{dom, val}, "", true, nil
		case "entries":
			v := g.eval(env, x.Args[0])
			dom, val := g.mapHeaps(v.T.Underlying().(*types.Map))
			return []string{dom, val}, v.S, false, nil
		case "all":
			if f, ok := x.Args[0].(*EField); ok {
				if h, ok := g.allFieldHeap(f); ok {
					return []string{h}, "", true, nil
				}
			}
			if id, ok := x.Args[0].(*EIdent); ok {
				if gd, ok := g.E.contracts.Ghosts[id.Name]; ok && gd.Kind == "field" {
					h, _, _, _ := g.ghostHeap(gd)
					return []string{h}, "", true, nil
				}
			}
		}
	case *EIdent:
		if gd, ok := g.E.contracts.Ghosts[x.Name]; ok && gd.Kind == "var" {
			return []string{"ghost." + x.Name}, "", true, nil
		}
		if v, ok := env.vars[x.Name]; ok && v.Addr != nil {
			return []string{v.Addr.Heap}, "", true, nil
		}
	}
	return nil, "", false, fmt.Errorf("unsupported modifies location %s", le)
}

// runInline executes fn's body in place and merges its return states.
func (g *Gen) runInline(fn *ssa.Function, binds []Val, args []Val, rt types.Type, pos token.Pos) Val {
	type saved struct {
		fn        *ssa.Function
		fc        *FuncContract
		vals      map[ssa.Value]Val
		order     []*ssa.BasicBlock
		blockEnd  map[*ssa.BasicBlock]*State
		loops     map[*ssa.BasicBlock]*loopInfo
		loopOrd   []*ssa.BasicBlock
		debugVals map[string][]debugRef
		params    map[string]Val
		inline    bool
		rets      []retInfo
		defers    []*ssa.Defer
		iterOrd   []*ssa.Range
	}
	sv := saved{g.fn, g.fc, g.vals, g.order, g.blockEnd, g.loops, g.loopOrd, g.debugVals, g.params, g.inlineMode, g.rets, g.cur.defers, g.iterOrd}
	g.fn = fn
	g.fc = g.E.contracts.Funcs[funcKey(fn)]
	g.vals = map[ssa.Value]Val{}
	g.order = nil
	g.blockEnd = map[*ssa.BasicBlock]*State{}
	g.loopOrd = nil
	g.inlineMode = true
	g.rets = nil
	g.inlineDepth++
	g.cur.defers = nil
	g.iterOrd = nil
	prevOuter := g.outerLookup
	restore := func() {
		g.fn, g.fc, g.vals, g.order, g.blockEnd, g.loops, g.loopOrd, g.debugVals, g.params, g.inlineMode, g.rets, g.iterOrd = sv.fn, sv.fc, sv.vals, sv.order, sv.blockEnd, sv.loops, sv.loopOrd, sv.debugVals, sv.params, sv.inline, sv.rets, sv.iterOrd
		g.inlineDepth--
		g.outerLookup = prevOuter
	}
	// names of the enclosing function that the closure does not capture (for callsite clauses)
	g.outerLookup = func(name string, st *State) (Val, bool) {
		cfn, cvals, cdbg, cpar, cpos := g.fn, g.vals, g.debugVals, g.params, g.lookupPos
		g.fn, g.vals, g.debugVals, g.params, g.lookupPos = sv.fn, sv.vals, sv.debugVals, sv.params, pos
		defer func() { g.fn, g.vals, g.debugVals, g.params, g.lookupPos = cfn, cvals, cdbg, cpar, cpos }()
		if v, ok := g.lookupVar(name, nil, -1, st); ok {
			return v, true
		}
		if v, ok := sv.params[name]; ok {
			return v, true
		}
		if prevOuter != nil {
			return prevOuter(name, st)
		}
		return Val{}, false
	}
	if err := g.analyzeCFG(); err != nil {
		restore()
		g.note("cannot inline %s: %v", fn.Name(), err)
		g.havocAll(g.cur, fn.Name())
		return g.havocVal(rt, "ret.inl")
	}
	g.params = map[string]Val{}
	for i, p := range fn.Params {
		if i < len(args) {
			g.vals[p] = args[i]
			g.params[p.Name()] = args[i]
		}
	}
	if g.freeVarNames == nil {
		g.freeVarNames = map[string]bool{}
	}
	for i, fv := range fn.FreeVars {
		if i < len(binds) {
			g.vals[fv] = binds[i]
			g.params[fv.Name()] = binds[i]
			g.freeVarNames[fv.Name()] = true
		}
	}
	// the callee's entry block continues from the current state
	entryState := g.cur
	g.blockEnd = map[*ssa.BasicBlock]*State{}
	g.cur = entryState
	g.runBody()
	rets := g.rets
	restore()
	// merge return states
	if len(rets) == 0 {
		g.cur = &State{reach: "false", store: map[string]string{}, dead: true}
		return g.havocVal(rt, "ret.inl")
	}
	var edges []inEdge
	for _, r := range rets {
		edges = append(edges, inEdge{cond: r.cond, st: r.st})
	}
	g.nfresh++
	fake := &ssa.BasicBlock{Index: 100000 + g.nfresh}
	merged := g.mergeStates(fake, edges)
	merged.defers = sv.defers
	g.cur = merged
	nres := fn.Signature.Results().Len()
	if nres == 0 {
		return Val{T: rt, S: "0"}
	}
	out := make([]Val, nres)
	for i := 0; i < nres; i++ {
		t := fn.Signature.Results().At(i).Type()
		term := rets[len(rets)-1].vals[i].S
		for k := len(rets) - 2; k >= 0; k-- {
			term = fmt.Sprintf("(ite %s %s %s)", rets[k].cond, rets[k].vals[i].S, term)
		}
		out[i] = Val{T: t, S: g.define("inl.ret", g.sortOf(t), term)}
	}
	if nres == 1 {
		return out[0]
	}
	return Val{T: rt, Tuple: out}
}

// GenerateStable generates the obligations of one function with every heap variable declared before the body is
// executed. Heap variables are declared on first use; a variable first mentioned after a coarse havoc (a call with
// modifies=all, a loop without frame) would otherwise still carry its entry value there, although the havoc must cover
// it. The generator therefore runs until the set of heap variables no longer grows (normally twice), each pass
// starting with the variables of the previous one already declared.
func GenerateStable(E *Engine, fn *ssa.Function, key string, fc *FuncContract) (*Gen, error) {
	var prev map[string]string
	var prevDT [][2]string
	var g *Gen
	for pass := 0; pass < 4; pass++ {
		fatals := len(E.fatals)
		g = NewGen(E, fn, key, fc)
		if prev != nil {
			// the struct sorts the heap variables mention, in the order they were first declared
			for _, dt := range prevDT {
				if !g.declared[dt[0]] {
					g.declared[dt[0]] = true
					g.emit("%s", dt[1])
					g.dtDecls = append(g.dtDecls, dt)
				}
			}
			names := make([]string, 0, len(prev))
			for n := range prev {
				names = append(names, n)
			}
			sort.Strings(names)
			for _, n := range names {
				g.heapDecl(n, prev[n])
			}
		}
		if err := g.Run(); err != nil {
			return nil, err
		}
		if prev != nil && len(g.heapSort) == len(prev) {
			return g, nil
		}
		prev = g.heapSort
		prevDT = g.dtDecls
		if pass < 3 {
			E.fatals = E.fatals[:fatals] // reported again by the next pass
		}
	}
	return g, nil
}

// lastPos: the position of the last instruction of the block (or of its dominators) that has one.
func lastPos(b *ssa.BasicBlock) token.Pos {
	for ; b != nil; b = b.Idom() {
		for i := len(b.Instrs) - 1; i >= 0; i-- {
			if p := b.Instrs[i].Pos(); p.IsValid() {
				return p
			}
		}
	}
	return token.NoPos
}
