package main

import (
	"bytes"
	"context"
	"encoding/json"
	"fmt"
	"go/types"
	"math/big"
	"os"
	"os/exec"
	"path/filepath"
	"regexp"
	"strings"
	"time"
)

// Replay templates live in /verif/replay/<key>.go.tmpl: a complete in-package _test.go file
// with placeholders that are filled from the solver's model of the failed obligation:
//
//   {{int NAME}} {{bool NAME}}     scalar parameter p.NAME
//   {{bytes NAME}}                 []byte parameter (contents at function entry)
//   {{string NAME}}                string parameter
//   {{stream NAME}}                io.ByteReader parameter: first 16 bytes of its ghost input stream
//   {{field NAME.F1.F2 kind}}      field path of a struct-valued parameter (kind: int|bool|string|bytes)
//
// The test must print VERIF-REPLAY-FAIL (and fail) when the real function violates the property.
var phRe = regexp.MustCompile(`\{\{(\w+) ([^}]+)\}\}`)

var heapNameRe = regexp.MustCompile(`\|([^|]+)@0\|`)
var subNameRe = regexp.MustCompile(`\((sub\.[^ ]+) `)

const replayMaxLen = 4096

var tByte = types.Typ[types.Uint8]

func tryReplay(E *Engine, cfg *PropConfig, o *Obl, dir string) (string, bool, string) {
	tmplPath := filepath.Join(verifRoot(), "replay", strings.TrimPrefix(o.Func, "lemma:")+".go.tmpl")
	tb, err := os.ReadFile(tmplPath)
	if err != nil {
		return "", false, ""
	}
	g := o.gen
	tmpl := string(tb)
	// collect the terms to evaluate
	type want struct {
		ph    string
		kind  string
		name  string
		terms []string
	}
	var wants []want
	seen := map[string]bool{}
	idx := func(k int) string { return g.idxLit(int64(k)) }
	for _, m := range phRe.FindAllStringSubmatch(tmpl, -1) {
		if seen[m[0]] {
			continue
		}
		seen[m[0]] = true
		w := want{ph: m[0], kind: m[1], name: strings.TrimSpace(m[2])}
		p := "p." + sanitize(w.name)
		switch w.kind {
		case "term":
			w.terms = []string{w.name}
			for _, hm := range heapNameRe.FindAllStringSubmatch(w.name, -1) {
				if _, ok := g.heapSort[hm[1]]; !ok {
					w.terms = []string{g.idxLit(0)} // location not mentioned by the query: any value will do
				}
			}
			for _, sm := range subNameRe.FindAllStringSubmatch(w.name, -1) {
				if !g.declared[sm[1]] {
					w.terms = []string{g.idxLit(0)}
				}
			}
		case "int", "bool":
			w.terms = []string{p}
		case "bytes":
			h := "Harr." + sanitize(g.sortOf(tByte))
			if _, ok := g.heapSort[h]; !ok {
				return "", false, "no byte heap in the query"
			}
			w.terms = []string{"(sl.len " + p + ")"}
			for k := 0; k < 48; k++ {
				w.terms = append(w.terms, fmt.Sprintf("(select (select |%s@0| (sl.ref %s)) %s)", h, p, g.add("(sl.off "+p+")", idx(k))))
			}
		case "string":
			w.terms = []string{"(s.len " + p + ")"}
			for k := 0; k < 48; k++ {
				w.terms = append(w.terms, fmt.Sprintf("(s.at %s %s)", p, idx(k)))
			}
		case "stream":
			if _, ok := g.heapSort["ghost.bdata"]; !ok {
				return "", false, "no ghost stream in the query"
			}
			for k := 0; k < 16; k++ {
				w.terms = append(w.terms, fmt.Sprintf("(select (select |ghost.bdata@0| (iface.ref %s)) %s)", p, g.add("(select |ghost.rpos@0| (iface.ref "+p+"))", idx(k))))
			}
		default:
			return "", false, "unknown placeholder kind " + w.kind
		}
		wants = append(wants, w)
	}
	var all []string
	for _, w := range wants {
		all = append(all, w.terms...)
	}
	var vals []string
	if len(all) > 0 && o.Model == "" {
		// no model (the solvers answered unknown): the template's scenario part, if it has one, can still run;
		// its model inputs get neutral values (empty slices, zero, false)
		for _, w := range wants {
			for range w.terms {
				if w.kind == "bool" {
					vals = append(vals, "false")
				} else {
					vals = append(vals, "0")
				}
			}
		}
	}
	if len(all) > 0 && o.Model != "" {
		q := o.query(false)
		q = "(set-option :produce-models true)\n" + q + "(get-value (" + strings.Join(all, " ") + "))\n"
		tmp, _ := os.MkdirTemp("", "vreplay")
		defer os.RemoveAll(tmp)
		qf := filepath.Join(tmp, "q.smt2")
		os.WriteFile(qf, []byte(q), 0o644)
		for _, sp := range []solverSpec{solvers[0], solvers[2]} {
			r := runSolver(context.Background(), sp, qf, 20000)
			if r.verdict == "sat" {
				vals = parseGetValue(r.out, len(all))
				if vals != nil {
					break
				}
			}
		}
		if vals == nil {
			return "", false, "could not obtain values for the replay inputs"
		}
	}
	pos := 0
	src := tmpl
	var inputs []string
	for _, w := range wants {
		vs := vals[pos : pos+len(w.terms)]
		pos += len(w.terms)
		var lit string
		switch w.kind {
		case "int", "term":
			n, ok := smtInt(vs[0])
			if !ok {
				return "", false, "unparsable value " + vs[0]
			}
			if strings.HasPrefix(strings.TrimSpace(vs[0]), "#x") && len(strings.TrimSpace(vs[0])) == 18 && n.Bit(63) == 1 {
				n.Sub(n, pow2(64)) // signed 64-bit value in bv mode
			}
			lit = n.String()
		case "bool":
			lit = vs[0]
		case "bytes", "string":
			n, ok := smtInt(vs[0])
			if !ok || n.Sign() < 0 || n.Cmp(big.NewInt(replayMaxLen)) > 0 {
				return "", false, "model has an input of length " + vs[0] + " (too large to replay)"
			}
			ln := int(n.Int64())
			bs := make([]string, 0, ln)
			for k := 0; k < ln; k++ {
				if k+1 < len(vs) {
					b, ok := smtInt(vs[k+1])
					if !ok {
						b = big.NewInt(0)
					}
					bs = append(bs, fmt.Sprintf("0x%02x", b.Int64()&0xff))
				} else {
					bs = append(bs, "0x00")
				}
			}
			if w.kind == "bytes" {
				lit = "[]byte{" + strings.Join(bs, ", ") + "}"
			} else {
				lit = "string([]byte{" + strings.Join(bs, ", ") + "})"
			}
		case "stream":
			var bs []string
			for _, v := range vs {
				b, ok := smtInt(v)
				if !ok {
					b = big.NewInt(0)
				}
				bs = append(bs, fmt.Sprintf("0x%02x", b.Int64()&0xff))
			}
			lit = "[]byte{" + strings.Join(bs, ", ") + "}"
		}
		inputs = append(inputs, w.name+" = "+lit)
		src = strings.ReplaceAll(src, w.ph, lit)
	}
	src = strings.ReplaceAll(src, "{{OBLIGATION}}", o.Name)
	// MASKED is true when the failed goal was "post OR mask" of a recorded finding, i.e. the
	// failure lies outside the recorded class and the scenario of the recorded class must be skipped
	src = strings.ReplaceAll(src, "{{MASKED}}", fmt.Sprint(o.Masked))
	name := sanitize(o.Name)
	if len(name) > 100 {
		name = name[:100]
	}
	goPath := filepath.Join(dir, name+"_replay_test.go")
	header := fmt.Sprintf("// Replay of failed obligation %s (property %s)\n// inputs from the solver model: %s\n// run: cd %s && go test -overlay <overlay mapping this file into the package> -vet=off -run TestVerifReplay\n", o.Name, cfg.ID, strings.Join(inputs, "; "), repoRoot())
	os.WriteFile(goPath, []byte(header+src), 0o644)
	failed, log := runReplayFile(E, o, goPath)
	return goPath, failed, "inputs: " + strings.Join(inputs, "; ") + "\n" + log
}

// runReplayFile injects the test into the function's package with -overlay and runs it.
func runReplayFile(E *Engine, o *Obl, goPath string) (bool, string) {
	fn := E.funcs[o.Func]
	var pkgDir string
	if fn == nil || fn.Pkg == nil {
		// a lemma has no function: its replaypkg option names the package whose real code the template drives
		for _, l := range E.contracts.Lemmas {
			if l.Name == strings.TrimPrefix(o.Func, "lemma:") && l.Opts["replaypkg"] != "" {
				for _, p := range E.pkgs {
					if strings.HasSuffix(p.PkgPath, "/"+strings.TrimPrefix(l.Opts["replaypkg"], "./")) && len(p.GoFiles) > 0 {
						pkgDir = filepath.Dir(p.GoFiles[0])
					}
				}
			}
		}
		if pkgDir == "" {
			return false, "function not found"
		}
	} else {
		for _, p := range E.pkgs {
			if p.Types == fn.Pkg.Pkg && len(p.GoFiles) > 0 {
				pkgDir = filepath.Dir(p.GoFiles[0])
			}
		}
	}
	if pkgDir == "" {
		return false, "package directory not found"
	}
	tmp, _ := os.MkdirTemp("", "vreplay")
	defer os.RemoveAll(tmp)
	ov := map[string]map[string]string{"Replace": {filepath.Join(pkgDir, "zz_verif_replay_test.go"): goPath}}
	ob, _ := json.Marshal(ov)
	ovPath := filepath.Join(tmp, "ov.json")
	os.WriteFile(ovPath, ob, 0o644)
	ctx, cancel := context.WithTimeout(context.Background(), 180*time.Second)
	defer cancel()
	cmd := exec.CommandContext(ctx, "go", "test", "-overlay", ovPath, "-vet=off", "-count=1", "-timeout", "60s", "-run", "^TestVerifReplay$", ".")
	cmd.Dir = pkgDir
	cmd.Env = append(os.Environ(), "GOFLAGS=-mod=mod", "GOPROXY=off", "GOSUMDB=off", "GOTOOLCHAIN=local")
	var out bytes.Buffer
	cmd.Stdout = &out
	cmd.Stderr = &out
	err := cmd.Run()
	s := out.String()
	if len(s) > 4000 {
		s = s[:4000]
	}
	failed := err != nil && strings.Contains(s, "VERIF-REPLAY-FAIL")
	return failed, s
}

func parseGetValue(out string, n int) []string {
	i := strings.Index(out, "((")
	if i < 0 {
		return nil
	}
	s := out[i:]
	// parse the outer list of (term value) pairs
	var vals []string
	depth := 0
	start := -1
	for k := 0; k < len(s); k++ {
		switch s[k] {
		case '(':
			depth++
			if depth == 2 {
				start = k
			}
		case ')':
			if depth == 2 && start >= 0 {
				pair := s[start+1 : k]
				vals = append(vals, lastSexp(pair))
				start = -1
			}
			depth--
			if depth == 0 {
				if len(vals) == n {
					return vals
				}
				return nil
			}
		}
	}
	return nil
}

// lastSexp returns the last top-level s-expression of a string.
func lastSexp(s string) string {
	s = strings.TrimSpace(s)
	if strings.HasSuffix(s, ")") {
		depth := 0
		for k := len(s) - 1; k >= 0; k-- {
			switch s[k] {
			case ')':
				depth++
			case '(':
				depth--
				if depth == 0 {
					return s[k:]
				}
			}
		}
	}
	if j := strings.LastIndexAny(s, " \n\t"); j >= 0 {
		return s[j+1:]
	}
	return s
}

func smtInt(v string) (*big.Int, bool) {
	v = strings.TrimSpace(v)
	if strings.HasPrefix(v, "#x") {
		n, ok := new(big.Int).SetString(v[2:], 16)
		return n, ok
	}
	if strings.HasPrefix(v, "#b") {
		n, ok := new(big.Int).SetString(v[2:], 2)
		return n, ok
	}
	if strings.HasPrefix(v, "(- ") {
		n, ok := new(big.Int).SetString(strings.TrimSuffix(strings.TrimPrefix(v, "(- "), ")"), 10)
		if ok {
			n.Neg(n)
		}
		return n, ok
	}
	if strings.HasPrefix(v, "(_ bv") {
		f := strings.Fields(strings.TrimPrefix(v, "(_ bv"))
		n, ok := new(big.Int).SetString(f[0], 10)
		return n, ok
	}
	n, ok := new(big.Int).SetString(v, 10)
	return n, ok
}
