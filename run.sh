#!/bin/sh
# ./run.sh <Cxx> [quick|thorough]  -- rebuilds the engine if stale, runs the property's check against /repo's working tree
set -e
cd "$(dirname "$0")"
export GOFLAGS=-mod=mod GOPROXY=off GOSUMDB=off GOTOOLCHAIN=local
ID="$1"; TIER="${2:-quick}"
if [ ! -x bin/vcheck ] || [ -n "$(find engine -name '*.go' -newer bin/vcheck 2>/dev/null | head -1)" ]; then
  (cd engine && go build -o ../bin/vcheck .)
fi
exec bin/vcheck check --tier "$TIER" "props/$ID.json"
